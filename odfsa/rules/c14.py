"""C14 — anything is found again under any name: quoted-literal taint into XPath.

R14a  a run-time string interpolated between quote characters (or right after '='
      inside a predicate) of a string that reaches an XPath sink must be a constant,
      an integer, an element of a frozen literal tuple, or pass the package's XPath
      string-literal quoting (recognised by its definition: guarded by `q not in v`
      or built from `v.split(q)` with concat()).
R14b  lookup keyword -> attribute table of make_xpath_query agrees with the attribute
      the corresponding element class stores the identifier in.
"""

from __future__ import annotations

import ast

from ..core import AnalysisError, FuncInfo, Repo, ancestors, call_name, enclosing_stmt, norm, parent, walk_no_nested, UNKNOWN
from ..strflow import LocalFlow, parts, predicate_value_fields, quoted_fields, str_sources, string_builders

EXPLANATION = (
    "Taint-style static analysis over every function of the package: all string-building expressions "
    "(f-strings, +, %, .format) are flattened into literal parts and fields; a field between matching quote "
    "characters (the [@attr=\"{value}\"] shape) or directly after '=' in a predicate is followed by local def-use "
    "closure and interprocedural sink/return summaries (fixpoint) to the XPath sinks (xpath_compile, XPath, "
    ".xpath, get_element(s), _get_element_idx, _filtered_element(s), make_xpath_query). Every reaching field "
    "must be provably safe (constant, int-kinded, frozen tuple member, or quoted by a function whose definition "
    "guards each quote character). Decides the injection/mis-match mechanism of C14 for all names; XPath's own "
    "exact-match semantics is trusted."
)
ASSUMPTIONS = [
    "XPath 1.0 string literals have no escape mechanism: a value is safe between quotes q only if it cannot contain q",
    "lxml evaluates a well-formed literal comparison as exact string equality",
    "identifiers reach lookups only through the package's own functions (no user-built XPath)",
]

BASE_SINKS = {  # callee name -> positions of query arguments
    "xpath_compile": (0,), "XPath": (0,), "xpath": (0,), "get_element": (0,), "get_elements": (0,),
    "_get_element_idx": (0,), "_filtered_element": (0,), "_filtered_elements": (0,), "make_xpath_query": (0,),
    "get_element_list": (0,), "ETXPath": (0,),
}
SINK_KW = {"xpath_query", "query_string", "path"}


class Flow:
    """Package-wide sink-parameter and query-returning summaries (fixpoint by name)."""

    def __init__(self, repo: Repo):
        self.repo = repo
        self.sink_params: dict[str, set[int]] = {k: set(v) for k, v in BASE_SINKS.items()}
        self.sink_kw: dict[str, set[str]] = {}
        self.query_returning: set[str] = {"make_xpath_query"}
        self.funcs = [f for f in repo.all_funcs()]
        self.byname: dict[str, list[FuncInfo]] = {}
        self.calls: dict[int, list[ast.Call]] = {}
        self.rets: dict[int, list[ast.expr]] = {}
        for f in self.funcs:
            self.byname.setdefault(f.name, []).append(f)
            cs, rs = [], []
            for n in walk_no_nested(f.node):
                if isinstance(n, ast.Call):
                    cs.append(n)
                elif isinstance(n, ast.Return) and n.value is not None:
                    rs.append(n.value)
            self.calls[id(f.node)] = cs
            self.rets[id(f.node)] = rs
        self.local: dict[int, LocalFlow] = {}
        self._fix()

    def lf(self, f: FuncInfo) -> LocalFlow:
        k = id(f.node)
        if k not in self.local:
            self.local[k] = LocalFlow(f, frozenset(self.query_returning))
        return self.local[k]

    def sink_arg_exprs(self, f: FuncInfo) -> list[ast.expr]:
        out = []
        for n in self.calls[id(f.node)]:
            nm = call_name(n)
            for pos in self.sink_params.get(nm, ()):
                if pos < len(n.args) and not isinstance(n.args[pos], ast.Starred):
                    out.append(n.args[pos])
            for k in n.keywords:
                if k.arg and (k.arg in self.sink_kw.get(nm, ()) or (nm in BASE_SINKS and k.arg in SINK_KW)):
                    out.append(k.value)
        return out

    def sink_names(self, f: FuncInfo) -> set[str]:
        s: set[str] = set()
        q = frozenset(self.query_returning)
        for e in self.sink_arg_exprs(f):
            s |= str_sources(e, q)
        return s

    def returned_names(self, f: FuncInfo) -> set[str]:
        s: set[str] = set()
        q = frozenset(self.query_returning)
        for e in self.rets[id(f.node)]:
            s |= str_sources(e, q)
        return s

    @staticmethod
    def _strish(a: ast.arg) -> bool:
        if a.annotation is None:
            return True
        t = ast.unparse(a.annotation)
        return "str" in t or "XPath" in t or t == "Any"

    def _fix(self):
        changed = True
        rounds = 0
        while changed and rounds < 8:
            changed = False
            rounds += 1
            self.local.clear()
            for f in self.funcs:
                sinks = self.sink_names(f)
                if f.name in self.query_returning:
                    sinks = sinks | self.returned_names(f)
                if sinks and len(self.byname[f.name]) == 1:
                    lf = self.lf(f)
                    off = 1 if (f.cls is not None and f.kind in ("method", "getter", "setter", "class")) else 0
                    pos = f.node.args.posonlyargs + f.node.args.args
                    for i, a in enumerate(pos):
                        if i < off or not self._strish(a):
                            continue
                        if lf.closure({a.arg}) & sinks:
                            idx = i - off
                            if idx not in self.sink_params.setdefault(f.name, set()):
                                self.sink_params[f.name].add(idx)
                                changed = True
                            if a.arg not in self.sink_kw.setdefault(f.name, set()):
                                self.sink_kw[f.name].add(a.arg)
                                changed = True
                # callees whose result is used as a query
                for n in self.calls[id(f.node)]:
                    nm = call_name(n)
                    if nm in self.query_returning or nm not in self.byname or len(self.byname[nm]) != 1:
                        continue
                    if self._call_result_reaches(f, n, sinks):
                        self.query_returning.add(nm)
                        changed = True
        self.local.clear()

    def _call_result_reaches(self, f: FuncInfo, call: ast.Call, sinks: set[str]) -> bool:
        for e in self.sink_arg_exprs(f):
            # the call result is (part of) the query string itself
            if e is call:
                return True
            ps = parts(e)
            if ps and any(k == "field" and v is call for k, v in ps):
                return True
        st = enclosing_stmt(call)
        if isinstance(st, ast.Assign) and st.value is call:
            names = {t.id for t in st.targets if isinstance(t, ast.Name)}
            if names and self.lf(f).closure(names) & sinks:
                return True
        return False

    def reaches_sink(self, f: FuncInfo, expr: ast.expr) -> str | None:
        """How the string built by `expr` reaches an XPath sink (text), or None."""
        q = frozenset(self.query_returning)
        for e in self.sink_arg_exprs(f):
            if e is expr or any(x is expr for x in _str_subexprs(e, q)):
                return "direct argument of an XPath sink"
        sinks = self.sink_names(f)
        retn = self.returned_names(f) if f.name in self.query_returning else set()
        st = enclosing_stmt(expr)
        names: set[str] = set()
        if isinstance(st, (ast.Assign, ast.AnnAssign, ast.AugAssign)) and st.value is not None \
                and any(x is expr for x in _str_subexprs(st.value, q)):
            tg = st.targets if isinstance(st, ast.Assign) else [st.target]
            for t in tg:
                for x in ast.walk(t):
                    if isinstance(x, ast.Name):
                        names.add(x.id)
        for a in ancestors(expr):
            if isinstance(a, ast.Call) and isinstance(a.func, ast.Attribute) and isinstance(a.func.value, ast.Name) \
                    and a.func.attr in ("append", "extend", "insert") and any(
                        any(x is expr for x in _str_subexprs(arg, q)) for arg in a.args):
                names.add(a.func.value.id)
            if isinstance(a, ast.stmt):
                break
        if names:
            cl = self.lf(f).closure(names)
            hit = cl & sinks
            if hit:
                return f"through local {sorted(names)} -> {sorted(hit)} into an XPath sink"
            hit = cl & retn
            if hit:
                return f"through local {sorted(names)} returned by query-building function {f.name}"
        if isinstance(st, ast.Return) and f.name in self.query_returning and st.value is not None \
                and any(x is expr for x in _str_subexprs(st.value, q)):
            return f"returned by query-building function {f.name}"
        return None


def _str_subexprs(e: ast.expr, q) -> list[ast.expr]:
    """Sub-expressions of e whose string value flows into the string value of e."""
    out = [e]
    if isinstance(e, ast.JoinedStr):
        for v in e.values:
            if isinstance(v, ast.FormattedValue):
                out += _str_subexprs(v.value, q)
    elif isinstance(e, ast.BinOp) and isinstance(e.op, (ast.Add, ast.Mod)):
        out += _str_subexprs(e.left, q) + _str_subexprs(e.right, q)
    elif isinstance(e, ast.IfExp):
        out += _str_subexprs(e.body, q) + _str_subexprs(e.orelse, q)
    elif isinstance(e, (ast.Tuple, ast.List)):
        for v in e.elts:
            out += _str_subexprs(v, q)
    elif isinstance(e, ast.Call):
        f = e.func
        nm = f.id if isinstance(f, ast.Name) else (f.attr if isinstance(f, ast.Attribute) else "")
        if isinstance(f, ast.Attribute) and f.attr in ("join", "strip", "format", "encode", "decode", "lower"):
            out += _str_subexprs(f.value, q)
            for a in e.args:
                out += _str_subexprs(a, q)
        elif nm == "str" or nm in q:
            for a in e.args:
                out += _str_subexprs(a, q)
    return out


def _int_kinded(e: ast.expr, f: FuncInfo, lf: LocalFlow, depth: int = 0) -> bool:
    if depth > 4:
        return False
    if isinstance(e, ast.Constant):
        return isinstance(e.value, int)
    if isinstance(e, ast.Call) and isinstance(e.func, ast.Name):
        if e.func.id in ("int", "len", "abs"):
            return True
        if e.func.id == "str" and e.args:
            return _int_kinded(e.args[0], f, lf, depth + 1)
    if isinstance(e, ast.BinOp) and isinstance(e.op, (ast.Add, ast.Sub, ast.Mult, ast.FloorDiv, ast.Mod)):
        return _int_kinded(e.left, f, lf, depth + 1) and _int_kinded(e.right, f, lf, depth + 1)
    if isinstance(e, ast.UnaryOp):
        return _int_kinded(e.operand, f, lf, depth + 1)
    if isinstance(e, ast.Name):
        for a in f.all_params():
            if a.arg == e.id and a.annotation is not None:
                ann = ast.unparse(a.annotation).replace(" ", "")
                return ann in ("int", "int|None", "Optional[int]")
        ds = lf.defs.get(e.id, [])
        return bool(ds) and all(_int_kinded(d, f, lf, depth + 1) for d in ds)
    return False


def _frozen_member(e: ast.expr, f: FuncInfo, lf: LocalFlow, repo: Repo) -> bool:
    """e is a loop variable (or tuple-unpacked member) over a literal/foldable collection of constants."""
    if not isinstance(e, ast.Name):
        return False
    for n in walk_no_nested(f.node):
        if isinstance(n, (ast.For, ast.comprehension)) and any(isinstance(t, ast.Name) and t.id == e.id for t in ast.walk(n.target)):
            it = n.iter
            v = repo.fold(it, f.module, f.cls)
            if v is UNKNOWN and isinstance(it, ast.Name):
                ds = lf.defs.get(it.id, [])
                if len(ds) == 1:
                    v = repo.fold(ds[0], f.module, f.cls)
            if v is UNKNOWN:
                return False
            return True
    return False


def _guard_excludes(expr: ast.expr, q: str, f: FuncInfo) -> bool:
    """The statement holding `expr` only runs when `q not in <v>` for the interpolated variable v,
    or v iterates over `<x>.split(q)`."""
    if not isinstance(expr, ast.Name):
        return False
    v = expr.id
    # v from split(q)
    for n in walk_no_nested(f.node):
        if isinstance(n, (ast.For, ast.comprehension)) and isinstance(n.target, ast.Name) and n.target.id == v:
            it = n.iter
            if isinstance(it, ast.Name):
                for a in walk_no_nested(f.node):
                    if isinstance(a, ast.Assign) and any(isinstance(t, ast.Name) and t.id == it.id for t in a.targets):
                        it = a.value
            if isinstance(it, ast.Call) and isinstance(it.func, ast.Attribute) and it.func.attr == "split" and it.args \
                    and isinstance(it.args[0], ast.Constant) and it.args[0].value == q:
                return True
    # syntactic guards: inside `if q not in v:` body, or after `if q in v: return/raise`
    st = enclosing_stmt(expr)
    cur = st
    while cur is not None and cur is not f.node:
        par = parent(cur)
        if isinstance(par, ast.If) and _is_contains(par.test, q, v) is False and cur in par.body:
            return True
        if isinstance(par, ast.If) and _is_contains(par.test, q, v) is True and cur in par.orelse:
            return True
        # earlier sibling `if q in v: <terminates>`
        for field in ("body", "orelse"):
            blk = getattr(par, field, None)
            if isinstance(blk, list) and cur in blk:
                for s in blk[:blk.index(cur)]:
                    if isinstance(s, ast.If) and _is_contains(s.test, q, v) is True and s.body and \
                            isinstance(s.body[-1], (ast.Return, ast.Raise)):
                        return True
        cur = par
    return False


def _is_contains(test: ast.expr, q: str, v: str) -> bool | None:
    """True for `q in v`, False for `q not in v`, None otherwise."""
    if isinstance(test, ast.Compare) and len(test.ops) == 1 and isinstance(test.left, ast.Constant) and test.left.value == q \
            and isinstance(test.comparators[0], ast.Name) and test.comparators[0].id == v:
        if isinstance(test.ops[0], ast.In):
            return True
        if isinstance(test.ops[0], ast.NotIn):
            return False
    if isinstance(test, ast.UnaryOp) and isinstance(test.op, ast.Not):
        r = _is_contains(test.operand, q, v)
        return None if r is None else (not r)
    return None


def quoting_helpers(repo: Repo) -> dict[str, FuncInfo]:
    """Functions recognised *by definition* as XPath string-literal quoting: one value parameter,
    every return is a string builder whose quoted fields are guarded (`q not in v`) or split on q,
    and a concat( fallback exists."""
    out = {}
    for f in repo.all_funcs():
        if f.kind != "function" or len(f.params) != 1:
            continue
        rets = [n for n in walk_no_nested(f.node) if isinstance(n, ast.Return) and n.value is not None]
        if len(rets) < 2:
            continue
        ok, any_q, has_concat = True, False, False
        for r in rets:
            found = False
            for sb in [r.value] if parts(r.value) else list(string_builders(r.value)):
                ps = parts(sb) or []
                if any(k == "lit" and "concat(" in v for k, v in ps):
                    has_concat = True
                for _, e, q, _ in quoted_fields(ps):
                    found = True
                    any_q = True
                    if not _guard_excludes(e, q, f):
                        ok = False
            for sub in ast.walk(r.value):
                if isinstance(sub, ast.JoinedStr) and sub is not r.value:
                    for _, e, q, _ in quoted_fields(parts(sub) or []):
                        any_q = True
                        if not _guard_excludes(e, q, f):
                            ok = False
        if ok and any_q and has_concat:
            out[f.name] = f
    return out


def r14a(ctx):
    repo = ctx.repo
    ctx.rule("R14a", "no run-time string is pasted between quotes (or after '=' in a predicate) of a string that reaches an XPath sink", floor=30)
    flow = Flow(repo)
    helpers = quoting_helpers(repo)
    ctx.extra["quoting_helpers"] = sorted(helpers)
    ctx.extra["derived_sinks"] = {k: sorted(v) for k, v in flow.sink_params.items() if k not in BASE_SINKS}
    ctx.extra["query_returning_functions"] = sorted(flow.query_returning)
    n_sink_calls = 0
    accepted_unquoted = 0
    for f in flow.funcs:
        n_sink_calls += len(flow.sink_arg_exprs(f))
        lf = flow.lf(f)
        for sb in string_builders(f.node):
            ps = parts(sb)
            if not ps:
                continue
            qf = quoted_fields(ps)
            pv = [(i, e, ctxt) for i, e, ctxt in predicate_value_fields(ps) if i not in {x[0] for x in qf}]
            nfields = sum(1 for k, _ in ps if k == "field")
            how = flow.reaches_sink(f, sb)
            if how is None:
                if qf and any("[@" in v or "::" in v for k, v in ps if k == "lit"):
                    ctx.report("R14a", f, sb, sb, "query-shaped quoted interpolation that reaches no XPath sink (information)", info=True)
                continue
            if not qf and not pv:
                accepted_unquoted += nfields
                ctx.instance("R14a", f"{f.file}:{f.ident}", f"query composed from fragments: {norm(sb, 70)}", ok=True, line=sb.lineno)
                continue
            for i, e, q, before in [(a, b, c, d) for a, b, c, d in qf] + [(a, b, "", c) for a, b, c in pv]:
                safe = None
                if repo.fold(e, f.module, f.cls) is not UNKNOWN:
                    safe = "constant"
                elif _int_kinded(e, f, lf):
                    safe = "integer"
                elif _frozen_member(e, f, lf, repo):
                    safe = "member of a frozen literal collection"
                elif isinstance(e, ast.Call) and call_name(e) in helpers:
                    safe = f"quoted by {call_name(e)}"
                elif q and _guard_excludes(e, q, f):
                    safe = f"guarded: value cannot contain {q}"
                attr = before[before.rfind("[") + 1:].rstrip("=\"' ") if "[" in before else before[-20:]
                what = f"{{{norm(e, 40)}}} {'between ' + q + q if q else 'after ='} in [{attr}…] — {how}"
                ctx.instance("R14a", f"{f.file}:{f.ident}", what, ok=safe is not None, nontrivial=True, line=sb.lineno)
                if safe is None:
                    ctx.report("R14a", f, sb, f"[{attr}={q}{{{norm(e, 40)}}}{q}]",
                               f"run-time value {norm(e, 40)!r} is interpolated {'between ' + q + ' quotes' if q else 'unquoted after ='} into a "
                               f"string that reaches XPath ({how}); a value containing {q or 'XPath syntax'} breaks or changes the query",
                               path=[how])
    ctx.extra["xpath_sink_argument_sites"] = n_sink_calls
    ctx.extra["unquoted_fragment_fields_accepted"] = accepted_unquoted
    if n_sink_calls < 150:
        raise AnalysisError(f"R14a: only {n_sink_calls} XPath sink call sites found (expected > 150)")
    _fixture(ctx)


_FIXTURE = '''
def lookup_bad(self, name):
    return self.get_element(f'descendant::text:bookmark[@text:name="{name}"]')
def lookup_bad2(self, name):
    q = "descendant::text:section[@text:name='" + name + "']"
    return self.get_elements(q)
def lookup_ok(self, position: int):
    return self.get_element(f"(descendant::text:p)[{position + 1}]")
def msg(name):
    raise ValueError(f'part "{name}" is mandatory')
'''


def _fixture(ctx):
    """Positive/negative fixture evaluated on every run so the rule can never pass vacuously."""
    tree = ast.parse(_FIXTURE)
    for n in ast.walk(tree):
        for ch in ast.iter_child_nodes(n):
            ch._parent = n
    got = {}
    for fn in tree.body:
        sbs = list(string_builders(fn))
        q = [quoted_fields(parts(sb)) for sb in sbs]
        got[fn.name] = sum(len(x) for x in q)
    if got != {"lookup_bad": 1, "lookup_bad2": 1, "lookup_ok": 0, "msg": 1}:
        raise AnalysisError(f"R14a fixture: quoted-field classifier broken: {got}")


# ------------------------------------------------------------------ R14c
def r14c(ctx):
    """The quoting helper denotes exactly its argument: "v", 'v', or concat() of the unfiltered v.split(q) pieces rejoined with q."""
    repo = ctx.repo
    ctx.rule("R14c", "the XPath string-literal helper denotes exactly its argument (no piece dropped, trimmed or re-ordered)", floor=3)
    helpers = quoting_helpers(repo)
    if not helpers:
        ctx.instance("R14c", "src/odfdo/utils/xpath_query.py", "a quoting helper is defined", ok=False)
        ctx.report("R14c", repo.module("utils.xpath_query"), repo.module("utils.xpath_query").tree, "no XPath string-literal quoting helper recognised",
                   "no function of the package is provably an XPath string-literal quoting helper (every return quoting its argument under a guard or by split+concat)")
        return
    for name, f in helpers.items():
        param = f.params[0]
        # the value variable: the parameter itself or `text = str(param)`
        valvars = {param}
        for a in walk_no_nested(f.node):
            if isinstance(a, ast.Assign) and isinstance(a.targets[0], ast.Name) and ast.unparse(a.value) in (f"str({param})", param):
                valvars.add(a.targets[0].id)
        for r in [n for n in walk_no_nested(f.node) if isinstance(n, ast.Return) and n.value is not None]:
            ps = parts(r.value) or []
            lits = "".join(v for k, v in ps if k == "lit")
            if "concat(" not in lits:
                # simple form: q + value + q, nothing else
                ok = len(ps) == 3 and ps[0][0] == "lit" and ps[2][0] == "lit" and ps[0][1] == ps[2][1] and ps[0][1] in ("'", '"') \
                    and ps[1][0] == "field" and isinstance(ps[1][1], ast.Name) and ps[1][1].id in valvars
                ctx.instance("R14c", f"{f.file}:{f.ident}", f"return {norm(r.value, 40)} is q + value + q", ok=ok, nontrivial=True, line=r.lineno)
                if not ok:
                    ctx.report("R14c", f, r, r.value, "the quoted literal is not exactly quote + value + quote: the lookup compares against a different string")
                continue
            # concat form
            joins = [c for c in ast.walk(r.value) if isinstance(c, ast.Call) and call_name(c) == "join" and isinstance(c.func, ast.Attribute)]
            ok, why = False, "no join(...) of quoted pieces"
            if len(joins) == 1:
                j = joins[0]
                sep = repo.fold(j.func.value, f.module)
                gen = j.args[0] if j.args else None
                why = ""
                if not (isinstance(sep, str) and sep.replace(" ", "") in (",'\"',", ',"\'",')):
                    why = f"separator {sep!r} is not the quote character as its own literal"
                elif not isinstance(gen, (ast.GeneratorExp, ast.ListComp)) or len(gen.generators) != 1 or gen.generators[0].ifs:
                    why = "the joined pieces are filtered or not a plain comprehension"
                else:
                    q = '"' if "'\"'" in sep else "'"
                    it = gen.generators[0].iter
                    src = it
                    if isinstance(it, ast.Name):
                        defs = [a.value for a in walk_no_nested(f.node) if isinstance(a, ast.Assign) and isinstance(a.targets[0], ast.Name) and a.targets[0].id == it.id]
                        src = defs[0] if len(defs) == 1 else None
                    if not (isinstance(src, ast.Call) and call_name(src) == "split" and isinstance(src.func, ast.Attribute) and isinstance(src.func.value, ast.Name)
                            and src.func.value.id in valvars and len(src.args) == 1 and repo.fold(src.args[0], f.module) == q and not src.keywords):
                        why = f"the pieces are not exactly <value>.split({q!r}) (filtered, sliced or transformed)"
                    else:
                        eps = parts(gen.elt) or []
                        other = q  # a piece cannot contain q (it was split on it), so q may delimit it
                        okp = len(eps) == 3 and eps[0][1] == other
                        tgt = gen.generators[0].target
                        okp = okp and eps[2][1] == other and isinstance(eps[1][1], ast.Name) and isinstance(tgt, ast.Name) and eps[1][1].id == tgt.id
                        if not okp:
                            why = "each piece is not quoted as-is with the quote character it was split on"
                ok = why == ""
            ctx.instance("R14c", f"{f.file}:{f.ident}", f"concat form rebuilds the value from value.split(q) {('— ' + why) if why else ''}", ok=ok, nontrivial=True, line=r.lineno)
            if not ok:
                ctx.report("R14c", f, r, "concat(...) does not denote the value",
                           f"the concat() fallback of {name} does not rebuild exactly its argument ({why}): an identifier with both quote characters is "
                           f"looked up under a different string, or the query is malformed")


# ------------------------------------------------------------------ R14b
def r14b(ctx):
    """make_xpath_query keyword → attribute table is a function: distinct keywords map to distinct
    attributes, and each attribute literal resolves to a known namespace prefix."""
    repo = ctx.repo
    ctx.rule("R14b", "make_xpath_query maps each lookup keyword to one attribute (no two keywords share an attribute, prefixes known)", floor=15)
    f = repo.func("utils.xpath_query:make_xpath_query")
    ns = repo.fold(repo.module("element").assigns.get("ODF_NAMESPACES"), repo.module("element"))
    if not isinstance(ns, dict):
        raise AnalysisError("ODF_NAMESPACES not foldable")
    table = {}
    for n in walk_no_nested(f.node):
        if isinstance(n, ast.If) and isinstance(n.test, (ast.Name, ast.BoolOp)):
            for s in n.body:
                if isinstance(s, ast.Assign) and isinstance(s.targets[0], ast.Subscript) and isinstance(s.targets[0].slice, ast.Constant):
                    attr = s.targets[0].slice.value
                    used = {x.id for x in ast.walk(s.value) if isinstance(x, ast.Name)}
                    tested = {x.id for x in ast.walk(n.test) if isinstance(x, ast.Name)}
                    kw = sorted(tested & set(f.params))
                    ok = bool(kw) and (used & set(kw)) and attr.split(":")[0] in ns
                    dup = attr in table
                    ctx.instance("R14b", f"{f.file}:{f.ident}", f"{kw} -> {attr}", ok=ok and not dup, line=n.lineno)
                    if not ok:
                        ctx.report("R14b", f, n, f"{kw} -> {attr}", f"keyword {kw} tested but attribute {attr!r} filled from {sorted(used)} or unknown prefix")
                    if dup:
                        ctx.report("R14b", f, n, f"{kw} -> {attr}", f"attribute {attr!r} is filled by two keywords ({table[attr]} and {kw})")
                    table[attr] = kw
    ctx.extra["make_xpath_query_table"] = {k: v for k, v in table.items()}


# ------------------------------------------------------------------ R14d
LOSSY = {"split", "rsplit", "strip", "lstrip", "rstrip", "lower", "upper", "casefold", "title", "capitalize", "swapcase", "replace", "translate",
         "expandtabs", "removeprefix", "removesuffix", "partition", "rpartition", "splitlines", "sub", "subn", "normalize", "center", "ljust", "rjust", "zfill"}

# free functions of the standard library that rewrite a string (from unicodedata, re, html, urllib.parse, xml.sax.saxutils, textwrap, shlex)
LOSSY_FUNCS = {"normalize", "sub", "subn", "escape", "unescape", "quote", "unquote", "quoteattr", "dedent", "shorten", "casefold"}

_FIXTURE_D = '''
def compile_bad(path):
    return XPath(" ".join(path.split()))
def lookup_bad(self, name):
    key = name.strip()
    query = f"descendant::text:bookmark[@text:name={xpath_string_literal(key)}]"
    return self.get_element(query)
def lookup_ok(self, name):
    query = f"descendant::text:bookmark[@text:name={xpath_string_literal(name)}]"
    return self.get_element(query)
def lookup_tpl(self, name, position):
    query = make_xpath_query("descendant::text:bookmark", text_name=name)
    return self.get_element(f"({query})[%d]" % (position + 1))
def lookup_nfc(self, name):
    key = normalize("NFC", name)
    return self.get_element(f"descendant::text:bookmark[@text:name={xpath_string_literal(key)}]")
'''


def _lossy_call(c: ast.Call) -> bool:
    """`x.strip()`, `re.sub(…)`, `unicodedata.normalize(…)` and the same functions imported by name (`normalize("NFC", x)`)."""
    if isinstance(c.func, ast.Attribute):
        return c.func.attr in LOSSY and not isinstance(c.func.value, ast.Constant)
    return isinstance(c.func, ast.Name) and c.func.id in LOSSY_FUNCS and bool(c.args)


def _runtime_text(e) -> bool:
    """a string expression that is not a literal: an f-string with fields, a name, a concatenation containing one of these"""
    if isinstance(e, ast.JoinedStr):
        return any(isinstance(v, ast.FormattedValue) for v in e.values)
    if isinstance(e, ast.BinOp) and isinstance(e.op, ast.Add):
        return _runtime_text(e.left) or _runtime_text(e.right)
    return isinstance(e, (ast.Name, ast.Attribute, ast.Call, ast.Subscript)) and not (isinstance(e, ast.Call) and call_name(e) in ("int", "len"))


def _rewrites(node, sink_exprs, lf, q):
    """Lossy string transformations among the expressions a sink argument is built from (backward def-use closure, helper arguments included)."""
    seen, work, out = set(), list(sink_exprs), []
    while work:
        e = work.pop()
        if id(e) in seen:
            continue
        seen.add(id(e))
        names = set(str_sources(e, q))
        for c in ast.walk(e):
            # run-time text used as a %-template or str.format template: '%%' collapses, '%s'/'{}' inside an identifier raise or swallow arguments
            if isinstance(c, ast.BinOp) and isinstance(c.op, ast.Mod) and _runtime_text(c.left):
                out.append(c)
            if isinstance(c, ast.Call) and isinstance(c.func, ast.Attribute) and c.func.attr in ("format", "format_map") and _runtime_text(c.func.value):
                out.append(c)
            if isinstance(c, ast.Call):
                if _lossy_call(c):
                    out.append(c)
                # what is handed to a quoting helper / query builder is part of the query too
                for a in list(c.args) + [k.value for k in c.keywords]:
                    names |= {x.id for x in ast.walk(a) if isinstance(x, ast.Name)} if call_name(c) in q or "literal" in (call_name(c) or "") else set()
        for n in names:
            work.extend(lf.defs.get(n, []))
    return out


def r14d(ctx):
    """Neither the identifier nor the finished query is rewritten on its way to XPath.

    R14a/R14c make the literal in the query denote exactly the value it is given.  That is
    only worth something if the value given is the caller's identifier and the query text
    that reaches lxml is the text that was built: a strip(), lower(), white-space
    normalisation or replace() anywhere on that path makes names that differ only in what
    the transformation erases collide (or not be found).  Rule: no lossy str method is
    applied to anything a sink argument is built from.  Expected count on a sound tree:
    0 — a fixture with two violating and one clean function is evaluated on every run.
    """
    repo = ctx.repo
    ctx.rule("R14d", "nothing a query is built from, and no finished query, passes through a lossy string transformation before the XPath sink", floor=100)
    flow = Flow(repo)
    q = frozenset(flow.query_returning)
    for f in flow.funcs:
        exprs = flow.sink_arg_exprs(f)
        if not exprs:
            continue
        # lookups hand identifiers to the query builder as keywords (text_name=…, forwarded through **kwargs): every keyword of a sink call is query material
        exprs = list(exprs)
        for n in flow.calls[id(f.node)]:
            if call_name(n) in flow.sink_params:
                exprs += [k.value for k in n.keywords if k.arg]
        bad = _rewrites(f.node, exprs, flow.lf(f), q)
        # frozen exception, one symbol: package paths are relative IRIs, './Pictures/x' and 'Pictures/x' name the same member; Document.get_part/set_part strip the
        # leading './' and merge_styles_from must use that same name for the manifest (it is not one of the identifiers of this property)
        if f.ident == "Document.merge_styles_from":
            bad = [c for c in bad if not (isinstance(c, ast.Call) and isinstance(c.func, ast.Attribute) and c.func.attr == "lstrip" and len(c.args) == 1
                                          and isinstance(c.args[0], ast.Constant) and c.args[0].value == "./")]
        ctx.instance("R14d", f"{f.file}:{f.ident}", f"{len(exprs)} sink argument(s): built without lossy transformation", ok=not bad, nontrivial=bool(bad), line=f.node.lineno)
        for c in bad[:2]:
            how = "%-formatting with run-time text as the template" if isinstance(c, ast.BinOp) else f"`{norm(c.func, 30)}()`"
            ctx.report("R14d", f, c, f"{norm(c, 60)} on the way to an XPath sink",
                       f"{f.ident} rewrites a string that becomes (part of) an XPath query with {how}: identifiers that differ only in what the "
                       f"transformation erases (or that contain its control characters: '%', '{{', '}}') are looked up as another name or make the lookup fail, while the stored "
                       f"attribute keeps the original spelling")
    # the query builders themselves: whatever they compute becomes query text, so nothing in them rewrites a non-constant string
    # (the quoting helper is excluded: its own split/join is the object of R14a/R14c)
    quoting = {g.name for g in flow.funcs if "literal" in g.name}
    for f in flow.funcs:
        if f.name not in flow.query_returning or f.name in quoting or f.name != "make_xpath_query" and not any(
                isinstance(x, ast.JoinedStr) or isinstance(x, ast.Constant) and isinstance(x.value, str) and "::" in x.value for x in ast.walk(f.node)):
            continue
        bad = [c for c in walk_no_nested(f.node) if isinstance(c, ast.Call) and _lossy_call(c)]
        ctx.instance("R14d", f"{f.file}:{f.ident}", "query builder: no lossy transformation of what it assembles", ok=not bad, nontrivial=True, line=f.node.lineno)
        for c in bad[:2]:
            ctx.report("R14d", f, c, f"{norm(c, 60)} inside the query builder",
                       f"{f.ident} builds query text and rewrites part of it with `{norm(c.func, 30)}()`: the attribute was stored with the caller's spelling, "
                       f"so identifiers that the transformation changes are no longer found under the name they were given")
    # fixture
    tree = ast.parse(_FIXTURE_D)
    got = {}
    for fn in tree.body:
        class _F:  # minimal FuncInfo stand-in for LocalFlow
            node = fn
        cs = [n for n in ast.walk(fn) if isinstance(n, ast.Call) and call_name(n) in BASE_SINKS]
        got[fn.name] = len(_rewrites(fn, [c.args[0] for c in cs], LocalFlow(_F, q), q))
    if got != {"compile_bad": 1, "lookup_bad": 1, "lookup_ok": 0, "lookup_nfc": 1, "lookup_tpl": 1}:
        raise AnalysisError(f"R14d fixture: rewrite detector broken: {got}")


# ------------------------------------------------------------------ R14e
def _local_types(repo, f: FuncInfo) -> dict[str, str]:
    """name -> element class of the locals of f, from the return annotations of the methods that produce them (Iterator[Row], list[Cell], Cell | None …)."""
    env: dict[str, str] = {}
    if f.cls is not None:
        env["self"] = f.cls.name

    def result_class(call: ast.Call) -> str | None:
        if not isinstance(call.func, ast.Attribute):
            return None
        recv = call.func.value
        cname = env.get(recv.id) if isinstance(recv, ast.Name) else None
        if cname is None:
            return None
        c = repo.find_class(cname)
        g = c.lookup(call.func.attr) if c is not None else None
        if g is None or g.node.returns is None:
            return None
        names = [x.id for x in ast.walk(g.node.returns) if isinstance(x, ast.Name) and x.id not in ("Iterator", "Iterable", "list", "tuple", "None", "Optional", "Any")]
        names = [n_ for n_ in names if repo.find_class(n_) is not None]
        return names[0] if len(set(names)) == 1 else None

    elem_of: dict[str, str] = {}   # local container name -> class of its elements

    def returns_container(call: ast.Call) -> bool:
        """the callee's return annotation is a list / iterator of elements (not a single element)"""
        if not isinstance(call.func, ast.Attribute):
            return False
        recv = call.func.value
        cname = env.get(recv.id) if isinstance(recv, ast.Name) else None
        c = repo.find_class(cname) if cname else None
        g = c.lookup(call.func.attr) if c is not None else None
        return g is not None and g.node.returns is not None and any(
            isinstance(x, ast.Name) and x.id in ("list", "Iterator", "Iterable", "tuple", "Sequence") for x in ast.walk(g.node.returns))

    def ann_class(ann) -> str | None:
        names = [x.id for x in ast.walk(ann) if isinstance(x, ast.Name) and x.id not in ("Iterator", "Iterable", "list", "tuple", "None", "Optional", "Any", "Sequence")]
        names = [n_ for n_ in names if repo.find_class(n_) is not None]
        return names[0] if len(set(names)) == 1 else None

    def elems_class(e) -> str | None:
        """class of the elements of a container expression"""
        if isinstance(e, ast.Call):
            return result_class(e)
        if isinstance(e, ast.Name):
            return elem_of.get(e.id)
        if isinstance(e, (ast.List, ast.Tuple)):
            cs = {result_class(x) if isinstance(x, ast.Call) else env.get(x.id) if isinstance(x, ast.Name) else None for x in e.elts}
            return next(iter(cs)) if len(cs) == 1 and None not in cs else None
        if isinstance(e, ast.IfExp):
            a, b = elems_class(e.body), elems_class(e.orelse)
            if isinstance(e.orelse, (ast.List, ast.Tuple)) and not e.orelse.elts:
                return a
            if isinstance(e.body, (ast.List, ast.Tuple)) and not e.body.elts:
                return b
            return a if a == b else None
        return None

    for _ in range(3):
        for n in walk_no_nested(f.node):
            if isinstance(n, ast.AnnAssign) and isinstance(n.target, ast.Name):
                ac = ann_class(n.annotation)
                if ac and any(isinstance(x, ast.Name) and x.id in ("Iterator", "Iterable", "list", "tuple", "Sequence") for x in ast.walk(n.annotation)):
                    elem_of[n.target.id] = ac
                elif ac:
                    env[n.target.id] = ac
            if isinstance(n, ast.Assign) and len(n.targets) == 1 and isinstance(n.targets[0], ast.Name):
                ec = elems_class(n.value) if not isinstance(n.value, ast.Call) else (result_class(n.value) if returns_container(n.value) else None)
                if ec and n.targets[0].id not in elem_of:
                    elem_of[n.targets[0].id] = ec
            if isinstance(n, (ast.For, ast.comprehension)) and isinstance(n.target, ast.Name):
                rc = elems_class(n.iter)
                if rc:
                    env[n.target.id] = rc
            elif isinstance(n, ast.Assign) and len(n.targets) == 1 and isinstance(n.targets[0], ast.Name) and isinstance(n.value, ast.Call):
                rc = result_class(n.value)
                if rc:
                    env[n.targets[0].id] = rc
    return env


def _decoding_props(repo) -> dict[str, dict[str, str]]:
    """property name -> {class name: how} for the properties whose getter turns the strings 'true'/'false' into booleans:
    PropDef-generated getters (Element._generic_attrib_getter) and explicit getters returning self.get_attribute(…)."""
    from ..registry import element_classes, property_names
    out: dict[str, dict[str, str]] = {}
    for c in element_classes(repo):
        for name, kind in property_names(repo, c).items():
            if kind == "propdef":
                out.setdefault(name, {})[c.name] = "PropDef (generic getter)"
            elif kind in ("property", "property-ro"):
                g = c.lookup(name, "getter")
                if g is not None and any(isinstance(x, ast.Call) and call_name(x) == "get_attribute" for r in walk_no_nested(g.node) if isinstance(r, ast.Return) and r.value is not None
                                         for x in ast.walk(r.value)):
                    out.setdefault(name, {})[c.name] = "getter returns get_attribute(…)"
    return out


def r14e(ctx):
    """An identifier is never compared with a decoded attribute.

    `Element.get_attribute` and the PropDef-generated getters return the *boolean* True / False for the attribute strings "true" / "false".
    A lookup that filters in Python — `mark.name == name`, `style != row.style` — therefore never finds an object named "true" or "false",
    while the XPath lookups compare the raw attribute.  Rule: where a parameter of a function is compared (==, !=, in) with an attribute
    property of another element, every class that element may have reads that property as a plain string (get_attribute_string).
    """
    repo = ctx.repo
    ctx.rule("R14e", "no identifier parameter is compared with an attribute property whose getter decodes 'true'/'false' to bool", floor=3)
    dec = _decoding_props(repo)
    n = 0
    for f in repo.all_funcs():
        params = {a.arg for a in f.all_params()} - {"self", "cls"}
        if not params:
            continue
        types = None
        for c in ast.walk(f.node):
            if not (isinstance(c, ast.Compare) and len(c.ops) == 1 and isinstance(c.ops[0], (ast.Eq, ast.NotEq, ast.In, ast.NotIn))):
                continue
            for a, b in ((c.left, c.comparators[0]), (c.comparators[0], c.left)):
                if not (isinstance(a, ast.Name) and a.id in params and isinstance(b, ast.Attribute) and isinstance(b.value, ast.Name) and b.value.id not in ("self", "cls")):
                    continue
                prop = b.attr
                if prop not in dec and not any(prop in property_names_cache(repo).get(cn, ()) for cn in ()):
                    # not an attribute property of any element class (a plain Python attribute)
                    if prop not in all_props(repo):
                        continue
                n += 1
                if types is None:
                    types = _local_types(repo, f)
                cname = types.get(b.value.id)
                if cname:
                    # the declared class and everything derived from it (a list[Element] may hold any element)
                    base = repo.find_class(cname)
                    culprits = {k: v for k, v in dec.get(prop, {}).items() if (kc := repo.find_class(k)) is not None and base is not None and kc.is_subclass_of(base)}
                else:
                    # the class of the element is not known from any annotation: undetermined, reported as such in the evidence, never as a violation
                    culprits = {}
                    ctx.unresolved.append(f"R14e {f.ident}: class of `{b.value.id}` in `{norm(c, 40)}` unknown")
                ok = not culprits
                ctx.instance("R14e", f"{f.file}:{f.ident}", f"`{norm(c, 40)}`: {b.value.id} is a {cname or 'element of unknown class'}; .{prop} " +
                             ("read as a string" if ok else f"decoded by {sorted(culprits)[:3]}"), ok=ok, nontrivial=True, line=c.lineno)
                if not ok:
                    k0 = sorted(culprits)[0]
                    ctx.report("R14e", f, c, norm(c, 60),
                               f"{f.ident} compares the identifier `{a.id}` with `{norm(b, 30)}`, whose getter ({k0}: {culprits[k0]}) returns the boolean True/False for the "
                               f"attribute strings 'true'/'false': an object named \"true\" or \"false\" is never matched, although it was stored under that name")
    ctx.extra["bool_decoding_properties"] = {k: len(v) for k, v in sorted(dec.items())}
    if n == 0:
        raise AnalysisError("R14e: no comparison of a parameter with an attribute property found")


_ALLP: dict[int, set] = {}


def all_props(repo) -> set[str]:
    if "p" not in repo.__dict__.setdefault("_odfsa_allprops", {}):
        from ..registry import element_classes, property_names
        s_: set[str] = set()
        for c in element_classes(repo):
            s_ |= set(property_names(repo, c))
        repo.__dict__["_odfsa_allprops"]["p"] = s_
    return repo.__dict__["_odfsa_allprops"]["p"]


def property_names_cache(repo):
    return {}


_FIXTURE_F = '''
def ok_eq(self, name):
    return self.get_element(f"descendant::text:bookmark[@text:name={xpath_string_literal(name)}]")
def bad_prefix(self, path):
    return self.xpath(f"//manifest:file-entry[starts-with(attribute::manifest:full-path, {xpath_string_literal(path)})]")
def bad_contains(self, name):
    return self.get_elements("descendant::table:table[contains(@table:name, " + xpath_string_literal(name) + ")]")
def bad_neq(self, name):
    return self.get_elements(f"descendant::text:section[@text:name!={xpath_string_literal(name)}]")
'''


def _literal_contexts(fn, helpers):
    """(call of a quoting helper, the constant text that precedes it in the f-string / concatenation it sits in) inside a function"""
    out = []
    for j in walk_no_nested(fn):
        pieces = None
        if isinstance(j, ast.JoinedStr):
            pieces = list(j.values)
        elif isinstance(j, ast.BinOp) and isinstance(j.op, ast.Add):
            flat, work = [], [j]
            while work:
                e = work.pop()
                if isinstance(e, ast.BinOp) and isinstance(e.op, ast.Add):
                    work += [e.right, e.left]
                else:
                    flat.append(e)
            pieces = flat
        if pieces is None:
            continue
        before = ""
        for v in pieces:
            if isinstance(v, ast.Constant) and isinstance(v.value, str):
                before += v.value
                continue
            inner = v.value if isinstance(v, ast.FormattedValue) else v
            if isinstance(inner, ast.JoinedStr):
                continue
            if isinstance(inner, ast.Call) and call_name(inner) in helpers:
                out.append((inner, before))
            before += "\0"
    # the same helper call can be seen through nested concatenations: keep the longest context per call
    best = {}
    for c, b in out:
        if id(c) not in best or len(b) > len(best[id(c)][1]):
            best[id(c)] = (c, b)
    return list(best.values())


def r14f(ctx):
    """An identifier is compared for equality.

    "Only it": the literal that the quoting helper builds from the caller's identifier is the right-hand side of `=` in the predicate.
    Inside starts-with(), contains(), ends-with(), matches() — or after `!=`, `<`, `>` — the lookup (or the deletion that follows it)
    also takes objects whose identifier merely begins with, or contains, the one asked for: "Pictures/ab" then selects "Pictures/ab.png"
    too.  Rule over every use of a quoting helper inside a string: the constant text in front of it ends with `=` (not `!=`, `<=`, `>=`),
    and no string function of XPath is open at that point.  Expected count of deviations 0; fixture evaluated on every run.
    """
    repo = ctx.repo
    ctx.rule("R14f", "every quoted identifier is the right-hand side of `=` in its predicate (no starts-with/contains/…, no other comparison)", floor=15)
    helpers = set(quoting_helpers(repo)) | {"xpath_string_literal"}

    def verdict(before: str):
        tail = before.rstrip()
        opened = [fn_ for fn_ in ("starts-with(", "contains(", "ends-with(", "matches(", "substring-after(", "substring-before(", "translate(")
                  if tail.count(fn_) > 0 and tail.rfind(fn_) > max(tail.rfind("]"), -1) and tail[tail.rfind(fn_):].count("(") > tail[tail.rfind(fn_):].count(")")]
        if opened:
            return f"inside {opened[-1]}…)"
        if not tail.endswith("=") or tail.endswith(("!=", "<=", ">=")):
            return f"after `{tail[-12:]}`"
        return None

    tree = ast.parse(_FIXTURE_F)
    got = {fn.name: [verdict(b) for _, b in _literal_contexts(fn, helpers)] for fn in tree.body}
    if [bool(v and v[0]) for v in (got["ok_eq"], got["bad_prefix"], got["bad_contains"], got["bad_neq"])] != [False, True, True, True] or not all(got.values()):
        raise AnalysisError(f"R14f fixture: comparison-context detector broken: {got}")
    for f in repo.all_funcs():
        if f.name in helpers:
            continue
        for c, before in _literal_contexts(f.node, helpers):
            why = verdict(before)
            ctx.instance("R14f", f"{f.file}:{f.ident}", f"`{norm(c, 40)}` compared with `=`", ok=why is None, nontrivial=True, line=c.lineno)
            if why:
                ctx.report("R14f", f, c, f"{norm(c, 50)} {why}",
                           f"{f.ident} puts the quoted identifier {why} instead of on the right of `=`: objects whose identifier only starts with, contains or differs from the one given "
                           f"are selected as well (and deleted or modified by what follows), e.g. 'Pictures/ab' also takes 'Pictures/ab.png'")


_FIXTURE_G = '''
def bad_digits(self, table: int | str):
    if isinstance(table, str) and table.strip().isdigit():
        table = int(table)
    return self.body.get_table(position=table) if isinstance(table, int) else self.body.get_table(name=table)
def bad_try(self, table: str | int):
    try:
        return self.body.get_table(position=int(table))
    except ValueError:
        return self.body.get_table(name=table)
def ok_type(self, table: int | str):
    if isinstance(table, int):
        return self.body.get_table(position=table)
    return self.body.get_table(name=table)
'''


def _content_dispatch(fn):
    """uses of a `str | int` parameter that look at what the string contains to decide whether it is a number"""
    out = []
    for a in fn.args.posonlyargs + fn.args.args + fn.args.kwonlyargs:
        if a.annotation is None:
            continue
        parts_ = {x.strip() for x in ast.unparse(a.annotation).replace("Optional[", "").replace("]", "").split("|")}
        if not {"str", "int"} <= parts_:
            continue
        for x in ast.walk(fn):
            if isinstance(x, ast.Call) and isinstance(x.func, ast.Attribute) and x.func.attr in ("isdigit", "isnumeric", "isdecimal") \
                    and any(isinstance(y, ast.Name) and y.id == a.arg for y in ast.walk(x.func.value)):
                out.append((a.arg, x))
            if isinstance(x, ast.Call) and isinstance(x.func, ast.Name) and x.func.id == "int" and x.args and any(isinstance(y, ast.Name) and y.id == a.arg for y in ast.walk(x.args[0])):
                out.append((a.arg, x))
    return out


def r14g(ctx):
    """A name that looks like a number is still a name.

    Several entry points take "name or index" (`table: str | int`).  Which one it is, is decided by the *type* of the argument: "2024",
    "1" and "007" are sheet names the API accepts.  A dispatch on the content of the string (isdigit(), int() with a fallback) looks such
    a sheet up by position: another sheet answers, or none.  Rule (expected count 0; fixture on every run): a parameter declared
    `str | int` is never tested with isdigit/isnumeric/isdecimal nor converted with int() — value setters excepted.
    """
    repo = ctx.repo
    ctx.rule("R14g", "a `str | int` name-or-index parameter is told apart by its type, never by the digits it contains", floor=20)
    tree = ast.parse(_FIXTURE_G)
    got = {fn.name: len(_content_dispatch(fn)) for fn in tree.body}
    if not (got["bad_digits"] >= 1 and got["bad_try"] >= 1 and got["ok_type"] == 0):
        raise AnalysisError(f"R14g fixture: content-dispatch detector broken: {got}")
    for f in repo.all_funcs():
        if f.kind in ("setter", "nested") or "/scripts/" in f.file:
            continue
        ann = [a for a in f.all_params() if a.annotation is not None and {"str", "int"} <= {x.strip() for x in ast.unparse(a.annotation).split("|")}]
        if not ann:
            continue
        bad = _content_dispatch(f.node)
        ctx.instance("R14g", f"{f.file}:{f.ident}", f"{[a.arg for a in ann]} told apart by type", ok=not bad, nontrivial=bool(bad), line=f.node.lineno)
        for nm, x in bad[:1]:
            ctx.report("R14g", f, x, f"{norm(x, 50)} on `{nm}`",
                       f"{f.ident} decides whether `{nm}` is an index by looking at its characters (`{norm(x, 40)}`): an object whose name consists of digits (\"2024\", \"1\") is "
                       f"looked up by position instead — another object is returned, or none, although it was stored under that name")


_STR_PREDICATES = {"isprintable", "isascii", "isalnum", "isalpha", "isidentifier", "islower", "isupper", "istitle", "isspace", "isdecimal", "isdigit", "isnumeric"}


def r14h(ctx):
    """Whether an object is found is decided by the query, not by a look at the identifier.

    The shared lookup functions build a query from the caller's criteria and return what it selects.  Every string the setters accept is a
    legal identifier — names with a no-break space, a zero-width joiner, a tab.  A guard that answers "nothing" (or raises) because the
    identifier fails a character test (`isprintable()`, `isascii()`, `isalnum()` …) makes such objects unfindable under the name they were
    stored with.  Rule (expected count 0): in the functions through which identifiers reach an XPath sink — the sink-parameter functions
    and the query builders — no branch condition applies a str predicate to a criterion.
    """
    repo = ctx.repo
    ctx.rule("R14h", "no lookup function decides on a character test (isprintable/isascii/isalnum …) of the identifier", floor=10)
    flow = Flow(repo)
    n = 0
    for f in flow.funcs:
        if not (f.name in flow.sink_params or f.name in flow.query_returning):
            continue  # only functions whose own parameters become (part of) a query
        if "/scripts/" in f.file or f.file.endswith("utils/coordinates.py"):
            continue
        n += 1
        bad = []
        for st in walk_no_nested(f.node):
            t = st.test if isinstance(st, (ast.If, ast.While, ast.IfExp)) else None
            if t is None and isinstance(st, (ast.ListComp, ast.GeneratorExp, ast.SetComp)):
                for g in st.generators:
                    for i in g.ifs:
                        if any(isinstance(x, ast.Call) and isinstance(x.func, ast.Attribute) and x.func.attr in _STR_PREDICATES for x in ast.walk(i)):
                            bad.append(i)
            if t is not None and any(isinstance(x, ast.Call) and isinstance(x.func, ast.Attribute) and x.func.attr in _STR_PREDICATES for x in ast.walk(t)):
                bad.append(t)
        ctx.instance("R14h", f"{f.file}:{f.ident}", "no character test on the criteria", ok=not bad, nontrivial=bool(bad), line=f.node.lineno)
        for t in bad[:1]:
            ctx.report("R14h", f, t, f"{norm(t, 60)}",
                       f"{f.ident} takes a decision on a character test of the identifier (`{norm(t, 50)}`): names the setters accept — with a no-break space, a joiner, a tab — are "
                       f"answered with 'not found' although the object is stored under exactly that name")
    if n < 10:
        raise AnalysisError(f"R14h: only {n} lookup function(s) found")


def r14i(ctx):
    """A lookup on a part answers from the XML, not from a note it made earlier.

    "Lookups by name return exactly the element whose name equals the string given": a name can be changed (a style renamed, a bookmark's
    name set) after it has been looked up once.  The lookups of XmlPart, Content, Styles, Meta and Manifest evaluate an XPath against the
    tree every time, so they cannot be out of date.  A dict of answers kept on the part — filled by a getter, keyed by the name asked for —
    has nothing that clears it when a name changes: the old name keeps finding the renamed element.  Rule (expected count 0 beyond the lazily
    parsed tree and root, which R11k governs): no cache decorator on a method of an XmlPart class, and no read-only method of one stores
    into an attribute of self or into a container held by self (by assignment, or by setdefault/update/append/add).
    """
    from .c02 import _memo_sites
    from .c15 import READ_ONLY
    repo = ctx.repo
    ctx.rule("R14i", "lookups and getters of every class keep no memo of their answers on the object (only the named, governed lazily loaded parts)", floor=400)
    # governed stores, one named attribute each, with the rule that governs it:
    #   XmlPart.__tree/__root   lazily parsed tree and its root wrapper (R11k)
    #   Container.__parts/__parts_ts   bytes of a package member and its timestamp, keyed by member path (R03 family)
    #   Document.__xmlparts     the XmlPart of a member path (R03 family); Document.__body  the body wrapper of content.xml (R20i: body setter keeps the node)
    #   Style._family           the family read from the style's own attribute on first use (R13 family: the family setter rewrites it)
    governed = {"__tree", "__root", "_XmlPart__tree", "_XmlPart__root", "__parts", "__parts_ts", "__xmlparts", "__body", "_family"}
    by_node = {}
    for c in repo.all_classes():
        for name, fs in c.methods.items():
            for f in fs:
                if f.cls is c and f.kind not in ("setter", "deleter", "nested"):
                    by_node[id(f.node)] = f
    ro = {k for k, f in by_node.items() if f.kind == "getter" or READ_ONLY.match(f.name) or f.name.startswith("_get")}
    sites = []
    for fn, st, why in _memo_sites([f.node for f in by_node.values()], [], lambda fn: id(fn) in ro):
        tg = st.targets if isinstance(st, ast.Assign) else [getattr(st, "target", None)]
        names = {x.attr for t in tg if t is not None for x in ast.walk(t) if isinstance(x, ast.Attribute) and isinstance(x.value, ast.Name) and x.value.id == "self"}
        if names and names <= governed:
            continue
        sites.append((fn, st, why))
    for k in ro:
        fn = by_node[k].node
        for x in walk_no_nested(fn):
            if isinstance(x, ast.Call) and isinstance(x.func, ast.Attribute) and x.func.attr in ("setdefault", "update", "append", "add", "__setitem__", "extend", "insert") \
                    and isinstance(x.func.value, ast.Attribute) and isinstance(x.func.value.value, ast.Name) and x.func.value.value.id == "self" \
                    and x.func.value.attr not in governed:
                sites.append((fn, x, f"`{norm(x, 50)}` keeps an answer on the part"))
    bad: dict[int, list] = {}
    for fn, n_, why in sites:
        bad.setdefault(id(fn), []).append((n_, why))
    for k, f in sorted(by_node.items(), key=lambda kv: (kv[1].file, kv[1].node.lineno)):
        b = bad.get(k, [])
        ctx.instance("R14i", f"{f.file}:{f.ident}", "answers from the tree", ok=not b, nontrivial=k in ro, line=f.node.lineno)
        for n_, why in b[:2]:
            ctx.report("R14i", f, n_, why.split("`")[1] if "`" in why else why,
                       f"{f.ident}: {why}; nothing clears it when an element is renamed, replaced or deleted, so a later lookup by the old name is answered with an "
                       f"element whose name is no longer that string")


def r14j(ctx):
    """What a setter saves across clear() it writes back, whatever the name looks like.

    The value setters of the typed fields (VarSet, UserFieldDecl) empty the element with clear(), which also removes its attributes, and then
    restore the identifying ones they saved first — `text:name` above all: it is the name every lookup matches.  The save goes through the
    generic getter, which turns the names "true" and "false" into booleans; handing that value straight back to set_attribute writes the same
    text again.  A truth test in between (`if name:`) drops the name "false" (and an empty one): after the next set_value the element is
    still in the document and no lookup finds it.  Rule: every attribute a method reads into a local before calling self.clear() is written
    back after it under the same qualified name, on every path, under no condition other than `<local> is not None`.
    """
    from ..paths import cfg_of, node_of
    repo = ctx.repo
    ctx.rule("R14j", "an attribute saved across self.clear() is restored on every path, conditional at most on `is not None`", floor=3)
    n = 0
    for f in repo.all_funcs():
        clears = [c for c in walk_no_nested(f.node) if isinstance(c, ast.Call) and call_name(c) == "clear" and isinstance(c.func, ast.Attribute)
                  and isinstance(c.func.value, ast.Name) and c.func.value.id == "self"]
        if not clears:
            continue
        first = min(clears, key=lambda c: c.lineno)
        saved = [a for a in walk_no_nested(f.node) if isinstance(a, ast.Assign) and len(a.targets) == 1 and isinstance(a.targets[0], ast.Name)
                 and isinstance(a.value, ast.Call) and call_name(a.value).startswith("get_attribute") and isinstance(a.value.func, ast.Attribute)
                 and isinstance(a.value.func.value, ast.Name) and a.value.func.value.id == "self" and a.value.args and a.lineno < first.lineno]
        if not saved:
            continue
        cfg = cfg_of(f)
        for a in saved:
            n += 1
            var = a.targets[0].id
            qn = repo.fold(a.value.args[0], f.module)
            backs = [c for c in walk_no_nested(f.node) if isinstance(c, ast.Call) and call_name(c).startswith("set_") and len(c.args) == 2 and repo.fold(c.args[0], f.module) == qn
                     and isinstance(c.args[1], ast.Name) and c.args[1].id == var and c.lineno > first.lineno]
            why = None
            if not backs:
                why = "it is never written back"
            else:
                for b in backs:
                    for t, pol in structural_guards_(b, f.node):
                        strict = isinstance(t, ast.Compare) and len(t.ops) == 1 and isinstance(t.ops[0], (ast.Is, ast.IsNot)) and isinstance(t.left, ast.Name) \
                            and t.left.id == var and isinstance(t.comparators[0], ast.Constant) and t.comparators[0].value is None
                        if not strict:
                            why = f"it is written back only under `{norm(t, 30)}`"
                if why is None:
                    # some write-back lies on every path from the clear to the exit — or is skipped only when the saved value is None
                    bn = [node_of(cfg, b) for b in backs]
                    cn = node_of(cfg, first)
                    path = cfg.path_avoiding(cn, cfg.exit, [x for x in bn if x is not None], follow_exc=False)
                    if path is not None:
                        tests = [x.stmt for x in path if x.kind == "test" and x.stmt is not None]
                        if not any(any(isinstance(y, ast.Name) and y.id == var for y in ast.walk(getattr(t, "test", t))) for t in tests):
                            why = "a path from clear() to the return skips the write-back"
            ctx.instance("R14j", f"{f.file}:{f.ident}", f"{qn} saved in a local across clear(): restored", ok=why is None, nontrivial=True, line=a.lineno)
            if why:
                ctx.report("R14j", f, backs[0] if backs else a, f"{qn}: {why}",
                           f"{f.ident} saves `{qn}` before self.clear() and {why}: clear() has removed the attribute, so for a name that tests false (the getter decodes \"false\" to "
                           f"False; an empty name) the element loses it and no lookup by that name finds it any more")
    if n < 3:
        raise AnalysisError(f"R14j: only {n} attribute(s) saved across clear() found")


def structural_guards_(node, stop):
    from ..paths import structural_guards
    return structural_guards(node, stop=stop)


_FOLDING = {"lower", "upper", "casefold", "strip", "lstrip", "rstrip", "title", "capitalize", "swapcase"}
_FIXTURE_K = '''
def replace_existing(container, named_range):
    new_name = str(named_range.name).lower()
    for current in container.get_elements("table:named-range"):
        if str(current.name).lower() == new_name:
            container.delete(current)
def indirect(container, name):
    wanted = name.strip()
    for item in container.items:
        key = item.name
        if key == wanted:
            return item
def keyword(value):
    return str(value).lower() == "true"
def exact(container, name):
    return [i for i in container.items if i.name == name]
'''


def _folded_comparisons(fn: ast.FunctionDef):
    """comparisons of two run-time strings in which one side was case- or blank-folded (inline, or through a local defined once)"""
    defs: dict[str, list] = {}
    for a in walk_no_nested(fn):
        if isinstance(a, ast.Assign) and len(a.targets) == 1 and isinstance(a.targets[0], ast.Name):
            defs.setdefault(a.targets[0].id, []).append(a.value)

    params = {a.arg for a in fn.args.posonlyargs + fn.args.args + fn.args.kwonlyargs}

    def names_a_name(e):
        """the folded text is an identifier: an attribute `….name` / `….table_name`, or a parameter called …name"""
        return any((isinstance(x, ast.Attribute) and x.attr.endswith("name")) or (isinstance(x, ast.Name) and x.id in params and x.id.endswith("name")) for x in ast.walk(e))

    def folded(e):
        for c in ast.walk(e):
            if isinstance(c, ast.Call) and isinstance(c.func, ast.Attribute) and c.func.attr in _FOLDING and not c.args and names_a_name(c.func.value):
                return c
        if isinstance(e, ast.Name) and len(defs.get(e.id, [])) == 1:
            for c in ast.walk(defs[e.id][0]):
                if isinstance(c, ast.Call) and isinstance(c.func, ast.Attribute) and c.func.attr in _FOLDING and not c.args and names_a_name(c.func.value):
                    return c
        return None

    out = []
    for t in walk_no_nested(fn):
        if isinstance(t, ast.Compare) and len(t.ops) == 1 and isinstance(t.ops[0], (ast.Eq, ast.NotEq, ast.In, ast.NotIn)):
            sides = [t.left, t.comparators[0]]
            if any(isinstance(x, ast.Constant) or (isinstance(x, (ast.Tuple, ast.Set, ast.List)) and all(isinstance(e, ast.Constant) for e in x.elts)) for x in sides):
                continue  # matching a keyword ("true", ("yes", "no")) is not a lookup
            f_ = folded(sides[0]) or folded(sides[1])
            if f_ is not None:
                out.append((t, f_))
    return out


def r14k(ctx):
    """Two names are the same name only if they are equal as they stand.

    "Lookups by name return exactly the element whose name equals the string given" — and so must the steps that *decide by name*: the
    "does it exist already?" test before a replacement, the filters of the listings.  `Total` and `total`, `a` and ` a ` are different
    identifiers in ODF.  A comparison made after lower(), casefold() or strip() treats them as one: storing a range under "TOTAL" deletes the
    one stored under "Total", and the lookup by the first name returns None from then on.  Today the package folds a string before comparing
    it only against keyword constants ("true", "false").  Rule (expected count 0, fixture evaluated on every run): no `==`, `!=`, `in`
    between two run-time strings has a case- or blank-folding call applied to a name (an attribute `….name`, a parameter called …name) on
    either side, inline or through a local defined once.  Value-type keywords (`cell_type.lower().strip()`) are a closed vocabulary, not identifiers.
    """
    repo = ctx.repo
    ctx.rule("R14k", "run-time strings are compared as they stand (no lower/casefold/strip on a side, except against keyword constants)", floor=500)
    tree = ast.parse(_FIXTURE_K)
    got = sorted(fn.name for fn in tree.body if isinstance(fn, ast.FunctionDef) and _folded_comparisons(fn))
    if got != ["indirect", "replace_existing"]:
        raise AnalysisError(f"R14k fixture: detector broken: {got}")
    for f in repo.all_funcs():
        bad = _folded_comparisons(f.node)
        ctx.instance("R14k", f"{f.file}:{f.ident}", "no folded comparison", ok=not bad, nontrivial=bool(bad), line=f.node.lineno)
        for t, c in bad[:1]:
            ctx.report("R14k", f, t, f"{norm(t, 50)}",
                       f"{f.ident} compares two run-time strings after `.{c.func.attr}()` (`{norm(t, 60)}`): names that differ only by case or surrounding blanks are taken for the same "
                       f"identifier — an element stored under one of them is replaced, skipped or returned for the other")


def r14l(ctx):
    """A lookup looks for the name it was asked for.

    The names that are stored are the names the caller gave (`insert_style`, `Style(name=…)`, `set_named_range` store them verbatim), so a
    lookup finds them only under the same string.  A `get_*` method that first "normalises" the name it received — spaces to `_20_`, case,
    blanks — asks the document for another identifier: the element stored under the given name is not found, and one stored under the
    rewritten name is returned for it.  Rule: in every `get_*` / `_get_*` method, a parameter whose name says it is a name
    (`name`, `name_or_element`, `table_name`, `display_name` …) is never re-bound to the result of a lossy string call on itself.
    """
    repo = ctx.repo
    ctx.rule("R14l", "lookup methods do not rewrite the name they are given before searching", floor=30)
    for f in repo.all_funcs():
        if not f.name.lstrip("_").startswith("get"):
            continue
        params = {a.arg for a in f.all_params() if "name" in a.arg}
        if not params:
            continue
        bad = []
        for a in walk_no_nested(f.node):
            if isinstance(a, ast.Assign) and len(a.targets) == 1 and isinstance(a.targets[0], ast.Name) and a.targets[0].id in params:
                v = a.value
                if any(isinstance(c, ast.Call) and ((isinstance(c.func, ast.Attribute) and c.func.attr in LOSSY) or call_name(c) in LOSSY_FUNCS)
                       and any(isinstance(x, ast.Name) and x.id == a.targets[0].id for x in ast.walk(c)) for c in ast.walk(v)):
                    bad.append(a)
        ctx.instance("R14l", f"{f.file}:{f.ident}", "searches for the name as given", ok=not bad, nontrivial=True, line=f.node.lineno)
        for a in bad[:1]:
            ctx.report("R14l", f, a, norm(a, 50),
                       f"{f.ident} rewrites the name it was asked for (`{norm(a, 50)}`) before searching: names are stored as the caller gave them, so the element stored under the given "
                       f"string is not found and another one, stored under the rewritten string, is returned for it")


def run(ctx):
    r14a(ctx)
    r14c(ctx)
    r14b(ctx)
    r14d(ctx)
    r14e(ctx)
    r14f(ctx)
    r14g(ctx)
    r14h(ctx)
    r14i(ctx)
    r14j(ctx)
    r14k(ctx)
    r14l(ctx)
    # a named range is found under its table name only if the address writer and reader agree on how that name is quoted (rule shared with C19)
    from .c19 import r19b, r19f
    r19b(ctx)
    # a lookup by (table) name matches that name only: membership in a list of names, never a substring test on the name itself (rule shared with C19)
    r19f(ctx)
    from .round12 import r14m
    r14m(ctx)


from ..selftest import Seed, unparse_seed  # noqa: E402

_XQ = "src/odfdo/utils/xpath_query.py"
_EL = "src/odfdo/element.py"
SEEDS = [
    Seed("Document.get_style looks a name with spaces up in its _20_ spelling", "fault", "src/odfdo/document.py",
         "        # 1. content.xml\n", "        if isinstance(name_or_element, str):\n            name_or_element = name_or_element.replace(\" \", \"_20_\")\n        # 1. content.xml\n", "R14l"),
    Seed("append_named_range replaces every range whose name matches case-insensitively", "fault", _EL,
         "        current = named_expressions.get_element(\n            f\"table:named-range[@table:name={xpath_string_literal(named_range.name)}][1]\"  # type:ignore\n        )\n        if current:\n            named_expressions.delete(current)",
         "        for current in named_expressions.get_elements(\"table:named-range\"):\n            if str(current.name).lower() == str(named_range.name).lower():\n                named_expressions.delete(current)", "R14k"),
    Seed("UserFieldDecl.set_value restores the name only if it tests true", "fault", "src/odfdo/variable.py",
         "        self.set_value_and_type(value=value)\n        self.set_attribute(\"text:name\", name)\n",
         "        self.set_value_and_type(value=value)\n        if name:\n            self.set_attribute(\"text:name\", name)\n", "R14j"),
    Seed("UserFieldDecl.set_value restores the name unless there was none", "neutral", "src/odfdo/variable.py",
         "        self.set_value_and_type(value=value)\n        self.set_attribute(\"text:name\", name)\n",
         "        self.set_value_and_type(value=value)\n        if name is not None:\n            self.set_attribute(\"text:name\", name)\n"),
    Seed("Content.get_style remembers its answers by (family, name)", "fault", "src/odfdo/content.py",
         "            if style is not None:\n                return style\n        return None",
         "            if style is not None:\n                self.__dict__.setdefault(\"_seen\", {})\n                self._seen[family, name_or_element] = style\n                return style\n        return None", "R14i"),
    Seed("reference mark looked up by comparing the decoded name in Python", "fault", _EL, '        if name:\n            request = (\n                f"descendant::text:reference-mark-start"\n                f"[@text:name={xpath_string_literal(name)}] "\n                f"| descendant::text:reference-mark"\n                f"[@text:name={xpath_string_literal(name)}]"\n            )\n            return self._filtered_element(request, position=0)\n', '        if name:\n            marks = [mark for mark in self.get_reference_marks() if mark.name == name]\n            return marks[0] if marks else None\n', "R14e"),
    Seed("Row.style decodes booleans again", "fault", "src/odfdo/row.py", '        return self.get_attribute_string("table:style-name")\n\n    @style.setter\n    def style(self, style: str | Element) -> None:\n        self.set_style_attribute("table:style-name", style)\n\n    @property\n    def width',
         '        return self.get_attribute("table:style-name")\n\n    @style.setter\n    def style(self, style: str | Element) -> None:\n        self.set_style_attribute("table:style-name", style)\n\n    @property\n    def width', "R14e"),
    Seed("xpath_compile normalises the white space of the whole query", "fault", _EL,
         "    return XPath(path, namespaces=ODF_NAMESPACES, regexp=False)", "    return XPath(\" \".join(path.split()), namespaces=ODF_NAMESPACES, regexp=False)", "R14d"),
    Seed("get_bookmark trims the name it looks up", "fault", _EL,
         '            "descendant::text:bookmark", position, text_name=name', '            "descendant::text:bookmark", position, text_name=name.strip()', "R14d"),
    Seed("xpath_compile lower-cases through a local", "fault", _EL,
         "    return XPath(path, namespaces=ODF_NAMESPACES, regexp=False)", "    text = path.casefold()\n    return XPath(text, namespaces=ODF_NAMESPACES, regexp=False)", "R14d"),
    Seed("make_xpath_query NFC-normalises the value it quotes", "fault", _XQ,
         'from .style_constants import FAMILY_ODF_STD\n', 'from unicodedata import normalize\n\nfrom .style_constants import FAMILY_ODF_STD\n', "R14d",
         edits=[(_XQ, '            query.append(f"[@{qname}={xpath_string_literal(value)}]")', '            value = normalize("NFC", str(value))\n            query.append(f"[@{qname}={xpath_string_literal(value)}]")')]),
    Seed("_filtered_element formats the position into the finished query with %", "fault", _EL,
         "        results = self._filtered_elements(query_string, **kwargs)\n        try:\n            return results[position]\n        except IndexError:\n            return None",
         "        if position >= 0:\n            query = make_xpath_query(query_string, **kwargs)\n            return self.get_element(f\"({query})[%d]\" % (position + 1))\n        results = self._filtered_elements(query_string, **kwargs)\n        try:\n            return results[position]\n        except IndexError:\n            return None", "R14d"),
    Seed("_filtered_element puts the position into the finished query with an f-string", "neutral", _EL,
         "        results = self._filtered_elements(query_string, **kwargs)\n        try:\n            return results[position]\n        except IndexError:\n            return None",
         "        if position >= 0 and not kwargs.get(\"content\"):\n            query = make_xpath_query(query_string, **kwargs)\n            found = self.get_element(f\"({query})[{position + 1}]\")\n            if found is not None or True:\n                pass\n        results = self._filtered_elements(query_string, **kwargs)\n        try:\n            return results[position]\n        except IndexError:\n            return None"),
    Seed("Manifest.del_full_path deletes every entry that starts with the path", "fault", "src/odfdo/manifest.py",
         "        file_entry = self._file_entry(full_path)\n        self.root.delete(file_entry)",
         "        self._file_entry(full_path)\n        xpath_query = (\n            \"//manifest:file-entry[starts-with(\"\n            f\"attribute::manifest:full-path, {xpath_string_literal(full_path)})]\"\n        )\n        for file_entry in self.xpath(xpath_query):\n            self.root.delete(file_entry)", "R14f"),
    Seed("_get_table takes a name made of digits for an index", "fault", "src/odfdo/document.py",
         "        if isinstance(table, int):\n            return self.body.get_table(position=table)  # type: ignore",
         "        if isinstance(table, str) and table.strip().isdigit():\n            table = int(table)\n        if isinstance(table, int):\n            return self.body.get_table(position=table)  # type: ignore", "R14g"),
    Seed("_filtered_elements answers nothing for a criterion that is not printable", "fault", _EL,
         "        query = make_xpath_query(query_string, **kwargs)\n        elements = self.get_elements(query)",
         "        for value in kwargs.values():\n            if isinstance(value, str) and not value.isprintable():\n                return []\n        query = make_xpath_query(query_string, **kwargs)\n        elements = self.get_elements(query)", "R14h"),
    Seed("make_xpath_query trims the keyword it files", "fault", _XQ, 'attributes["text:name"] = text_name', 'attributes["text:name"] = text_name.strip()', "R14d"),
    Seed("make_xpath_query converts the value with str() first", "neutral", _XQ,
         '            query.append(f"[@{qname}={xpath_string_literal(value)}]")', '            shown = str(value)\n            query.append(f"[@{qname}={xpath_string_literal(shown)}]")'),
    Seed("xpath_compile binds the query to a local first", "neutral", _EL,
         "    return XPath(path, namespaces=ODF_NAMESPACES, regexp=False)", "    text = str(path)\n    return XPath(text, namespaces=ODF_NAMESPACES, regexp=False)"),
    Seed("make_xpath_query pastes value between quotes again", "fault", _XQ,
         'query.append(f"[@{qname}={xpath_string_literal(value)}]")', "query.append(f'[@{qname}=\"{value}\"]')", "R14a"),
    Seed("make_xpath_query interpolates the raw value after =", "fault", _XQ,
         'query.append(f"[@{qname}={xpath_string_literal(value)}]")', 'query.append(f"[@{qname}={value}]")', "R14a"),
    Seed("Manifest._file_entry old style", "fault", "src/odfdo/manifest.py",
         'f"[attribute::manifest:full-path={xpath_string_literal(full_path)}]"\n        )\n        result = self.xpath(xpath_query)\n        if not result:',
         'f\'[attribute::manifest:full-path="{full_path}"]\'\n        )\n        result = self.xpath(xpath_query)\n        if not result:', "R14a"),
    Seed("get_references with + concatenation and quotes", "fault", _EL,
         'f"[@text:ref-name={xpath_string_literal(name)}]"', '"[@text:ref-name=\'" + name + "\']"', "R14a"),
    Seed("new lookup written with % formatting", "fault", _EL,
         "    def get_references(self, name: str | None = None) -> list[Element]:",
         "    def get_widget(self, name: str) -> Element | None:\n        return self.get_element('descendant::form:widget[@form:name=\"%s\"]' % name)\n\n"
         "    def get_references(self, name: str | None = None) -> list[Element]:", "R14a"),
    Seed("new lookup through a local variable and .format", "fault", _EL,
         "    def get_references(self, name: str | None = None) -> list[Element]:",
         "    def get_widget(self, name: str) -> list[Element]:\n        q = 'descendant::form:widget[@form:name=\"{}\"]'.format(name)\n        q2 = q + '/form:item'\n        return self.get_elements(q2)\n\n"
         "    def get_references(self, name: str | None = None) -> list[Element]:", "R14a"),
    Seed("quoting helper loses its guard", "fault", _XQ,
         "    if '\"' not in text:\n        return f'\"{text}\"'", "    if text:\n        return f'\"{text}\"'", "R14a"),
    Seed("concat fallback drops empty chunks", "fault", _XQ, "    parts = text.split('\"')\n", "    parts = [part for part in text.split('\"') if part]\n", "R14c"),
    Seed("concat fallback trims the pieces", "fault", _XQ, "f'\"{part}\"' for part in parts", "f'\"{part.strip()}\"' for part in parts", "R14"),
    Seed("simple form pads the value", "fault", _XQ, "        return f'\"{text}\"'", "        return f'\" {text}\"'", "R14c"),
    Seed("reference.referenced_text old style", "fault", "src/odfdo/reference.py",
         'f"[preceding::text:reference-mark-start[@text:name={xpath_string_literal(name)}] "',
         'f"[preceding::text:reference-mark-start[@text:name=\'{name}\'] "', "R14a", count=2),
    Seed("two keywords fill the same attribute", "fault", _XQ,
         'attributes["draw:name"] = draw_name', 'attributes["draw:id"] = draw_name', "R14b"),
    unparse_seed(_XQ), unparse_seed(_EL), unparse_seed("src/odfdo/manifest.py"), unparse_seed("src/odfdo/reference.py"),
    Seed("error message with quotes is not a query", "neutral", _EL,
         "    def get_references(self, name: str | None = None) -> list[Element]:",
         "    def check_widget(self, name: str) -> None:\n        msg = f'widget \"{name}\" not found'\n        raise ValueError(msg)\n\n"
         "    def get_references(self, name: str | None = None) -> list[Element]:"),
    Seed("int position interpolated in predicate", "neutral", _EL,
         "    def get_references(self, name: str | None = None) -> list[Element]:",
         "    def get_nth_widget(self, position: int) -> Element | None:\n        return self.get_element(f'descendant::form:widget[@form:index=\"{position + 1}\"]')\n\n"
         "    def get_references(self, name: str | None = None) -> list[Element]:"),
]
