"""C05 — paragraph text round-trips, XML in ODF white-space normal form (partial: codec tables and run-length conservation).

R05a  space-run conservation: every arm of Paragraph._sub_merge_spaces that encodes a run of N spaces emits pieces whose decoded lengths add up to N
      (affine forms over N: literal blanks + the Spacer count)
R05b  the Spacer codec: the count is stored from 2 up, read back with default 1, decoded as that many blanks (thresholds agree)
R05c  tab / line-break tables: the splitter regex, the encoder arms and the decoders of Tab and LineBreak name the same characters
R05d  the text accessor concatenates own text, then each child's str and tail, in document order
R05e  append_plain_text re-reads the whole container and rebuilds it through the three-stage pipeline in order (shares R16g)

What is NOT decided: the position-dependent case analysis (which runs are first / last / inner, across several append calls) — the part of
the property that quantifies over all strings and all splittings.
"""

from __future__ import annotations

import ast
import re

from ..core import UNKNOWN, AnalysisError, call_name, norm, walk_no_nested
from ..paths import if_arms, structural_guards

EXPLANATION = (
    "Structural clauses only. R05a evaluates, for every place in Paragraph._sub_merge_spaces where a run of blanks is encoded, the number of "
    "blanks the emitted pieces decode to (literal blanks handed to the text accumulator + the count given to Spacer) as an affine form over "
    "N = len(run) and compares it with N. R05b/R05c compare the encoder and decoder tables of text:s, text:tab and text:line-break (constants "
    "folded from the source, the splitter regexes tabulated with re._parser). R05d checks the shape of inner_text / _text_tail. R05e is the "
    "must-pass-through obligation of append_plain_text (whole-content reader on every normal path) plus the order of the pipeline stages. "
    "Which runs are first, last or inner — for all strings and all ways of splitting them into append calls — is a property of the string "
    "algorithm and is not decided here."
)
ASSUMPTIONS = [
    "ODF 1.2 §6.1.2: a consumer collapses runs of white space in character content; text:s stands for text:c blanks (default 1), text:tab for U+0009, text:line-break for U+000A",
    "re.split with one capturing group returns the separators as items of their own",
]


def _aff_len(e: ast.expr, run: str):
    """affine form (a, b) meaning a*N + b for expressions over len(<run>) and integer constants; None if not of that shape"""
    if isinstance(e, ast.Constant) and isinstance(e.value, int) and not isinstance(e.value, bool):
        return (0, e.value)
    if isinstance(e, ast.Call) and call_name(e) == "len" and e.args and isinstance(e.args[0], ast.Name) and e.args[0].id == run:
        return (1, 0)
    if isinstance(e, ast.BinOp) and isinstance(e.op, (ast.Add, ast.Sub)):
        l, r = _aff_len(e.left, run), _aff_len(e.right, run)
        if l is None or r is None:
            return None
        return (l[0] + r[0], l[1] + r[1]) if isinstance(e.op, ast.Add) else (l[0] - r[0], l[1] - r[1])
    return None


def r05a(ctx):
    repo = ctx.repo
    ctx.rule("R05a", "every encoded run of N blanks decodes to N blanks (literal blanks + Spacer count, affine in N)", floor=3)
    f = repo.func("Paragraph._sub_merge_spaces")
    spacers = [c for c in walk_no_nested(f.node) if isinstance(c, ast.Call) and call_name(c) == "Spacer" and c.args]
    if not spacers:
        raise AnalysisError("R05a: no Spacer(<count>) construction in Paragraph._sub_merge_spaces")
    for sp in spacers:
        # the run: the name whose len() the count is computed from
        names = [x.args[0].id for x in ast.walk(sp.args[0]) if isinstance(x, ast.Call) and call_name(x) == "len" and x.args and isinstance(x.args[0], ast.Name)]
        if len(set(names)) != 1:
            raise AnalysisError(f"R05a: the count of `{norm(sp, 40)}` is not computed from the length of one run")
        run = names[0]
        cnt = _aff_len(sp.args[0], run)
        # the block that handles this run: the innermost if-arm containing the Spacer call
        blk = None
        cur = sp
        while cur is not None and blk is None:
            par = getattr(cur, "_parent", None)
            if isinstance(par, ast.If):
                blk = par.body if any(cur is s_ or cur in list(ast.walk(s_)) for s_ in par.body) else par.orelse
            cur = par
        blk = blk or []
        lit = 0
        for st in blk:
            for c in ast.walk(st):
                if isinstance(c, ast.Call) and (call_name(c) in ("_merge_text",) or (call_name(c) == "append" and isinstance(c.func, ast.Attribute))) and c.args \
                        and isinstance(c.args[0], ast.Constant) and isinstance(c.args[0].value, str):
                    if set(c.args[0].value) - {" "}:
                        lit = None
                        break
                    lit += len(c.args[0].value)
            if lit is None:
                break
        total = None if (cnt is None or lit is None) else (cnt[0], cnt[1] + lit)
        ok = total == (1, 0)
        # the run really is a run of blanks, and the count is at least 1
        gs = structural_guards(sp, stop=f.node)
        only_spaces = any(pol and any(isinstance(x, ast.Call) and call_name(x) == "match" and x.args and isinstance(x.args[0], ast.Name) and x.args[0].id == run for x in ast.walk(t))
                          for t, pol in gs)
        positive = cnt == (1, 0) or (cnt == (1, -1) and any(pol and any(isinstance(x, ast.Compare) and isinstance(x.ops[0], ast.Gt) and _aff_len(x.left, run) == (1, 0)
                                                                        and _aff_len(x.comparators[0], run) == (0, 1) for x in ast.walk(t)) for t, pol in gs))
        ctx.instance("R05a", f"{f.file}:{f.ident}", f"run `{run}`: {lit} literal blank(s) + Spacer({norm(sp.args[0], 25)}) = {total} (must be N); only-blanks test={only_spaces}, count >= 1={positive}",
                     ok=ok and only_spaces and positive, nontrivial=True, line=sp.lineno)
        if not (ok and only_spaces and positive):
            what = "the pieces emitted for a run of N blanks do not decode to N blanks" if not ok else (
                "the Spacer is emitted for an item that was not tested to be blanks only" if not only_spaces else "the Spacer count can be 0 (a text:s always stands for at least one blank)")
            ctx.report("R05a", f, sp, f"{norm(sp, 40)} with {lit} literal blank(s): total {total}",
                       f"Paragraph._sub_merge_spaces: {what} — a run of spaces comes back shorter or longer than it was written")


def r05b(ctx):
    repo = ctx.repo
    ctx.rule("R05b", "text:s codec: count stored from 2 up, read back with default 1, decoded as that many blanks", floor=4)
    init = repo.func("Spacer.__init__")
    thr = [repo.fold(c.comparators[0], init.module) for c in walk_no_nested(init.node) if isinstance(c, ast.Compare) and isinstance(c.ops[0], ast.GtE)]
    ok = thr == [2]
    ctx.instance("R05b", f"{init.file}:{init.ident}", f"the count is stored when >= {thr}", ok=ok, nontrivial=True)
    if not ok:
        ctx.report("R05b", init, init.node, f"Spacer stores text:c when >= {thr}", "Spacer(n) does not store its count for every n >= 2: Spacer(2) would decode as one blank")
    g = repo.func("Spacer.length", "getter")
    dflt = [r.value.value for r in walk_no_nested(g.node) if isinstance(r, ast.Return) and isinstance(r.value, ast.Constant)]
    reads = any(isinstance(c, ast.Call) and call_name(c) == "int" for c in walk_no_nested(g.node))
    ok = dflt == [1] and reads
    ctx.instance("R05b", f"{g.file}:{g.ident}", f"length = int(text:c), default {dflt}", ok=ok, nontrivial=True)
    if not ok:
        ctx.report("R05b", g, g.node, f"Spacer.length default {dflt}", "a text:s without text:c must count as exactly one blank, and text:c must be read as an integer")
    s_ = repo.func("Spacer.length", "setter")
    thr2 = [repo.fold(c.comparators[0], s_.module) for c in walk_no_nested(s_.node) if isinstance(c, ast.Compare) and isinstance(c.ops[0], ast.Lt)]
    ok = thr2 == [2]
    ctx.instance("R05b", f"{s_.file}:{s_.ident}", f"length setter drops text:c below {thr2}", ok=ok)
    if not ok:
        ctx.report("R05b", s_, s_.node, f"length setter threshold {thr2}", "the length setter and the constructor disagree on when text:c is stored")
    t = repo.func("Spacer.text", "getter")
    rets = [r.value for r in walk_no_nested(t.node) if isinstance(r, ast.Return) and r.value is not None]
    ok = len(rets) == 1 and isinstance(rets[0], ast.BinOp) and isinstance(rets[0].op, ast.Mult) and any(isinstance(x, ast.Constant) and x.value == " " for x in (rets[0].left, rets[0].right)) \
        and any(isinstance(x, ast.Attribute) and x.attr == "length" for x in (rets[0].left, rets[0].right))
    ctx.instance("R05b", f"{t.file}:{t.ident}", "text = ' ' * length", ok=ok, nontrivial=True)
    if not ok:
        ctx.report("R05b", t, t.node, "Spacer.text", "a text:s does not decode to exactly `length` blanks")
    st = repo.func("Spacer.__str__")
    ok = any(isinstance(r, ast.Return) and isinstance(r.value, ast.Attribute) and r.value.attr == "text" for r in walk_no_nested(st.node))
    ctx.instance("R05b", f"{st.file}:{st.ident}", "str(Spacer) is its text", ok=ok)
    if not ok:
        ctx.report("R05b", st, st.node, "Spacer.__str__", "str() of a text:s (what inner_text concatenates) is not its decoded text")


def _chars_of(pat: str) -> set[str] | None:
    """the single characters a regex of the form (a|b|…) or [ab…] splits on; None for other shapes"""
    import re._parser as sp  # type: ignore
    try:
        tree = sp.parse(pat)
    except Exception:  # noqa: BLE001
        return None
    items = list(tree)
    if len(items) == 1 and str(items[0][0]) == "SUBPATTERN":
        items = list(items[0][1][3])
    out: set[str] = set()
    for op, av in items:
        if str(op) == "LITERAL":
            out.add(chr(av))
        elif str(op) == "BRANCH":
            for br in av[1]:
                if len(br) != 1 or str(br[0][0]) != "LITERAL":
                    return None
                out.add(chr(br[0][1]))
        elif str(op) == "IN":
            for o2, a2 in av:
                if str(o2) != "LITERAL":
                    return None
                out.add(chr(a2))
        else:
            return None
    return out


def r05c(ctx):
    repo = ctx.repo
    ctx.rule("R05c", "tab / line-break: splitter regex, encoder arms and decoders name the same characters", floor=4)
    m = repo.module("paragraph")
    node = m.assigns.get("_re_splitter")
    pat = repo.fold(node.args[0], m) if isinstance(node, ast.Call) and node.args else UNKNOWN
    chars = _chars_of(pat) if isinstance(pat, str) else None
    f = repo.func("Paragraph._sub_replace_tabs_lb")
    enc = {}
    for n in walk_no_nested(f.node):
        if isinstance(n, ast.If):
            core, when_t, _ = if_arms(n)
            if isinstance(core, ast.Compare) and len(core.ops) == 1 and isinstance(core.ops[0], ast.Eq) and isinstance(core.comparators[0], ast.Constant) \
                    and isinstance(core.comparators[0].value, str):
                made = [call_name(c) for s_ in when_t for c in ast.walk(s_) if isinstance(c, ast.Call) and call_name(c)[:1].isupper()]
                if made:
                    enc[core.comparators[0].value] = made[0]
    ok = chars is not None and set(enc) == chars == {"\n", "\t"}
    ctx.instance("R05c", f"{f.file}:{f.ident}", f"splitter separates on {sorted(map(repr, chars or []))}, encoder arms for {sorted(map(repr, enc))}", ok=ok, nontrivial=True)
    if not ok:
        ctx.report("R05c", f, f.node, f"splitter {pat!r} vs encoder arms {enc}", "a character the splitter isolates has no encoder arm (or the reverse): tabs or line breaks stay raw in the XML, "
                   "where a consumer collapses them")
    for ch, cls in sorted(enc.items()):
        for acc, kind in (("__str__", None), ("text", "getter")):
            g = repo.find_func(f"{cls}.{acc}", kind)
            vals = {repo.fold(r.value, g.module) for r in walk_no_nested(g.node) if isinstance(r, ast.Return) and r.value is not None} if g is not None else set()
            ok = vals == {ch}
            ctx.instance("R05c", f"{f.file}:{cls}.{acc}", f"{ch!r} is encoded as {cls}; {cls}.{acc} decodes to {sorted(map(repr, vals))}", ok=ok, nontrivial=True)
            if not ok and g is not None:
                ctx.report("R05c", g, g.node, f"{cls}.{acc} -> {sorted(map(repr, vals))}, encoder writes it for {ch!r}", f"{cls} is written for {ch!r} but reads back as another string")
    # the blank splitter isolates runs of U+0020 only
    for nm, want in (("_re_spaces_split", "( +)"), ("_re_only_spaces", "^ +$")):
        nd = m.assigns.get(nm)
        p = repo.fold(nd.args[0], m) if isinstance(nd, ast.Call) and nd.args else UNKNOWN
        ok = isinstance(p, str) and re.sub(r"[()^$]", "", p) == " +"
        ctx.instance("R05c", f"{m.relpath}:{nm}", f"{nm} = {p!r} matches runs of U+0020 only", ok=ok)
        if not ok:
            ctx.report("R05c", m, nd, f"{nm} = {p!r}", "the blank splitter no longer isolates exactly the runs of U+0020")


def r05h(ctx):
    """`$` is not the end of the string.

    In Python `$` also matches just before a final line break.  The white-space encoder handles line breaks as content (they become
    text:line-break later in the pipeline), so a pattern that cuts "the blanks at the end" with `$` from a chunk such as "a \\n" takes the
    line break with it.  The encoder's own `^ +$` is harmless only because it is applied, with match(), to the pieces produced by the blank
    splitter, which are either all blanks or hold none.  Rule: in paragraph.py a compiled pattern that contains `$` is used only through
    match()/fullmatch() on an item of the list the blank splitter produced; any other use (search, sub, split, findall on a text) is
    reported — `\\Z` is the end of the string.
    """
    import re._parser as sp  # type: ignore
    repo = ctx.repo
    ctx.rule("R05h", "a pattern anchored with `$` is applied only by match() to pieces of the blank splitter (otherwise `$` skips a final line break)", floor=1)
    m = repo.module("paragraph")
    dollar = {}
    for nm, node in m.assigns.items():
        if isinstance(node, ast.Call) and call_name(node) == "compile" and node.args:
            pat = repo.fold(node.args[0], m)
            if isinstance(pat, str):
                try:
                    items = str(sp.parse(pat))
                except Exception:  # noqa: BLE001
                    continue
                if "AT_END" in items and "AT_END_STRING" not in items.replace("AT_END_STRING", "") or ("AT_END" in items.replace("AT_END_STRING", "")):
                    dollar[nm] = pat
    n = 0
    for f in m.all_funcs:
        # lists produced by a split of the blank splitter
        pieces = {a.targets[0].id for a in walk_no_nested(f.node) if isinstance(a, ast.Assign) and isinstance(a.targets[0], ast.Name)
                  and any(isinstance(c, ast.Call) and isinstance(c.func, ast.Attribute) and c.func.attr == "split" for c in ast.walk(a.value))}
        items = set()
        for a in walk_no_nested(f.node):
            if isinstance(a, ast.Assign) and isinstance(a.targets[0], ast.Name) and isinstance(a.value, ast.Subscript) and isinstance(a.value.value, ast.Name) and a.value.value.id in pieces:
                items.add(a.targets[0].id)
            if isinstance(a, ast.For) and isinstance(a.target, ast.Name) and any(isinstance(x, ast.Name) and x.id in pieces for x in ast.walk(a.iter)):
                items.add(a.target.id)
        for c in walk_no_nested(f.node):
            if isinstance(c, ast.Call) and isinstance(c.func, ast.Attribute) and isinstance(c.func.value, ast.Name) and c.func.value.id in dollar:
                n += 1
                subj = c.args[0] if c.args else None
                ok = c.func.attr in ("match", "fullmatch") and isinstance(subj, ast.Name) and subj.id in items
                ctx.instance("R05h", f"{f.file}:{f.ident}", f"`{norm(c, 40)}` ({dollar[c.func.value.id]!r}): " + ("match() on a piece of the splitter" if ok else "applied to a text that may end in a line break"),
                             ok=ok, nontrivial=True, line=c.lineno)
                if not ok:
                    ctx.report("R05h", f, c, f"{norm(c, 50)} with {dollar[c.func.value.id]!r}",
                               f"{f.ident} applies the `$`-anchored pattern {dollar[c.func.value.id]!r} with .{c.func.attr}() to `{norm(subj, 20) if subj is not None else '?'}`: `$` also matches before a "
                               f"final line break, so for a chunk like 'a \\n' the cut takes the line break with the blanks and the text loses it")
    if n == 0:
        ctx.note("R05h: no `$`-anchored pattern in use in paragraph.py")
        ctx.rules["R05h"].floor = 0


def r05d(ctx):
    repo = ctx.repo
    ctx.rule("R05d", "inner_text = own text, then each child's str() and tail, in document order", floor=2)
    from ..shape import has
    g = repo.func("Element.inner_text", "getter")
    # one definition of the text: every return of the getter has that shape (a fast path through lxml's itertext() skips what only str() of a child knows:
    # the blanks of text:s, the tab, the line break, the rendering of a link)
    rets = [r for r in walk_no_nested(g.node) if isinstance(r, ast.Return)]
    ok = has(g.node, 'return self.text + "".join(X_._text_tail for X_ in self.children)') and len(rets) == 1
    ctx.instance("R05d", f"{g.file}:{g.ident}", "self.text + ''.join(child._text_tail for child in self.children)", ok=ok, nontrivial=True)
    if not ok:
        ctx.report("R05d", g, g.node, "Element.inner_text", "the text of an element is no longer its own text followed by every child's text and tail in order")
    h = repo.func("Element._text_tail", "getter")
    ok = has(h.node, 'return str(self) + (self.tail or "")')
    ctx.instance("R05d", f"{h.file}:{h.ident}", "str(self) + (self.tail or '')", ok=ok, nontrivial=True)
    if not ok:
        ctx.report("R05d", h, h.node, "Element._text_tail", "a child no longer contributes its own string followed by its tail")


def r05e(ctx):
    repo = ctx.repo
    ctx.rule("R05e", "append_plain_text: expand → merge → replace, in that order, on the whole content", floor=1)
    f = repo.func("Paragraph.append_plain_text")
    order = [call_name(c) for c in sorted([c for c in walk_no_nested(f.node) if isinstance(c, ast.Call) and call_name(c) in ("_expand_spaces", "_merge_spaces", "_replace_tabs_lb")],
                                        key=lambda c: (c.lineno, c.col_offset))]
    ok = order == ["_expand_spaces", "_merge_spaces", "_replace_tabs_lb"]
    ctx.instance("R05e", f"{f.file}:{f.ident}", f"pipeline {order}", ok=ok, nontrivial=True)
    if not ok:
        ctx.report("R05e", f, f.node, f"pipeline {order}", "the three stages of the white-space encoder are not applied once each, in the order expand → merge → replace: "
                   "tabs/line breaks split the text before the runs of blanks are measured, or a stage is skipped")
    from .c16 import r16g
    r16g(ctx)


def r05f(ctx):
    """Caller text reaches a paragraph-like element only through the encoder.

    Paragraph, Header and Span take text in their constructor and in append(); the only two ways it may enter the tree are
    `append_plain_text` (encodes blanks, tabs, line breaks) and `_unformatted` (collapses them on purpose, formatted=False).  A raw store —
    `self.text = text` on some fast path — leaves a leading or trailing blank, or a lone tab, in the character content, where a consumer
    collapses it.  Rule: in the constructors and append methods of the paragraph-like classes every `self.text = …` / `self.tail = …`
    stores a constant or the result of `_unformatted`.
    """
    repo = ctx.repo
    ctx.rule("R05f", "paragraph-like constructors and append() never store caller text raw (only through append_plain_text / _unformatted)", floor=4)
    n = 0
    for cname in ("Paragraph", "Header", "Span"):  # the three classes the property quantifies over
        c = repo.cls(cname)
        for name in ("__init__", "append"):
            for f in c.methods.get(name, []):
                for a in walk_no_nested(f.node):
                    if not (isinstance(a, ast.Assign) and len(a.targets) == 1 and isinstance(a.targets[0], ast.Attribute) and a.targets[0].attr in ("text", "tail")
                            and isinstance(a.targets[0].value, ast.Name) and a.targets[0].value.id == "self"):
                        continue
                    n += 1
                    v = a.value
                    ok = isinstance(v, ast.Constant) or (isinstance(v, ast.Call) and call_name(v) == "_unformatted")
                    ctx.instance("R05f", f"{f.file}:{f.ident}", f"{norm(a, 50)}: " + ("constant / deliberately unformatted" if ok else "RAW caller text"), ok=ok, nontrivial=not ok, line=a.lineno)
                    if not ok:
                        ctx.report("R05f", f, a, norm(a, 60),
                                   f"{c.name}.{name} stores `{norm(v, 30)}` straight into the element: a leading or trailing blank (or a tab / line break the fast-path test "
                                   f"did not think of) stays raw in the XML, where any consumer collapses it — the text that is read back by other applications differs")
    if n == 0:
        raise AnalysisError("R05f: no text store found in the constructors of the paragraph-like classes")
    # … and whenever there is text: the test in front of the encoder call looks at the text as it is (truth, type, the formatted flag), not at a rewritten copy —
    # `if text.strip():` drops a heading that is " " or a line break
    from .c14 import _lossy_call
    for cname in ("Paragraph", "Header", "Span"):
        c = repo.cls(cname)
        for f in c.methods.get("__init__", []):
            for call in [x for x in walk_no_nested(f.node) if isinstance(x, ast.Call) and call_name(x) in ("append_plain_text", "append")]:
                from ..paths import structural_guards
                lossy = [x for t, _pol in structural_guards(call, stop=f.node) for x in ast.walk(t) if isinstance(x, ast.Call) and _lossy_call(x)]
                ctx.instance("R05f", f"{f.file}:{f.ident}", f"`{norm(call, 40)}` is guarded by tests on the text as given", ok=not lossy, nontrivial=True, line=call.lineno)
                for x in lossy[:1]:
                    ctx.report("R05f", f, x, f"{norm(x, 40)} decides whether {norm(call, 30)} runs",
                               f"{c.name}.__init__ hands the text to the encoder only when `{norm(x, 40)}` is true: text made of blanks, tabs or line breaks only is dropped although it is "
                               f"text (\" \" must come back as \" \")")


def r05g(ctx):
    """Every string chunk of the rebuilt content goes through the blank encoder.

    `_expand_spaces` turns the whole content back into strings and elements (every text:s becomes blanks again), so *all* string chunks —
    not only the newly appended one — must be re-encoded by `_sub_merge_spaces`, and all of them must be split on tabs and line breaks.
    Rule: in `_merge_spaces` and `_replace_tabs_lb` the test that sends a chunk to the sub-encoder is `isinstance(item, str)` alone: no
    position, index or identity condition may exempt a string.
    """
    repo = ctx.repo
    ctx.rule("R05g", "every string chunk of the rebuilt content is re-encoded (no positional exemption in _merge_spaces / _replace_tabs_lb)", floor=2)
    for q, sub in (("Paragraph._merge_spaces", "_sub_merge_spaces"), ("Paragraph._replace_tabs_lb", "_sub_replace_tabs_lb")):
        f = repo.func(q)
        calls_ = [c for c in walk_no_nested(f.node) if isinstance(c, ast.Call) and call_name(c) == sub]
        ok, why = False, f"{sub} is not called"
        for c in calls_:
            gs = structural_guards(c, stop=f.node)
            tests = [t for t, pol in gs]
            only_type = len(gs) == 1 and gs[0][1] and isinstance(gs[0][0], ast.Call) and call_name(gs[0][0]) == "isinstance"                 and len(gs[0][0].args) == 2 and isinstance(gs[0][0].args[1], ast.Name) and gs[0][0].args[1].id == "str"
            ok = only_type
            why = "guarded by isinstance(item, str) alone" if ok else f"guarded by {[norm(t, 40) for t in tests]}"
        ctx.instance("R05g", f"{f.file}:{f.ident}", f"{sub}(item): {why}", ok=ok, nontrivial=True, line=f.node.lineno)
        if not ok:
            ctx.report("R05g", f, calls_[0] if calls_ else f.node, f"{sub}(…) {why}",
                       f"{q} does not hand every string chunk to {sub}: after _expand_spaces has turned the text:s of the whole paragraph back into blanks, a chunk that is "
                       f"skipped is appended raw — runs of blanks before an existing tab or line break collapse, single leading blanks stay unencoded")


def run(ctx):
    # R05a reads one particular shape of the encoder; when the encoder is rewritten beyond it, the other clauses are still evaluated first so that a
    # definite violation is reported as such (main turns "violations, then analysis error" into exit 1 with an ANALYSIS-INCOMPLETE line)
    pending = None
    try:
        r05a(ctx)
    except AnalysisError as e:
        pending = e
    try:
        _rest(ctx)
    finally:
        if pending is not None:
            raise pending
    from .round12 import r05i
    r05i(ctx)


def _rest(ctx):
    r05b(ctx)
    r05c(ctx)
    r05d(ctx)
    r05e(ctx)
    r05f(ctx)
    r05g(ctx)
    r05h(ctx)
    # every chunk of Paragraph(text) goes through Element.append: a substitution there that touches more than U+0020 changes the text (part of a rule shared with C16)
    from .c16 import r16i
    r16i(ctx, children=False)
    ctx.rules["R16i"].floor = 1


from ..selftest import Seed, unparse_seed  # noqa: E402

_P = "src/odfdo/paragraph.py"
_PB = "src/odfdo/paragraph_base.py"
SEEDS = [
    Seed("Paragraph.append writes short strings raw", "fault", "src/odfdo/paragraph.py",
         "        elif formatted:\n            self.append_plain_text(str_or_element)\n        else:\n            # self._Element__append(self._unformatted(str_or_element))",
         "        elif formatted and len(str_or_element) < 2:\n            self._Element__append(str_or_element)\n        elif formatted:\n            self.append_plain_text(str_or_element)\n        else:\n            # self._Element__append(self._unformatted(str_or_element))", "R05i"),
    Seed("Paragraph.append tests for a string first", "neutral", "src/odfdo/paragraph.py",
         "        if isinstance(str_or_element, Element):\n            self._Element__append(str_or_element)\n        elif formatted:\n            self.append_plain_text(str_or_element)\n        else:\n            # self._Element__append(self._unformatted(str_or_element))",
         "        if not isinstance(str_or_element, Element):\n            if formatted:\n                self.append_plain_text(str_or_element)\n            else:\n                self.append_plain_text(self._unformatted(str_or_element))\n            return\n        else:\n            self._Element__append(str_or_element)\n            return\n        if formatted:\n            pass\n        else:\n            # self._Element__append(self._unformatted(str_or_element))"),
    Seed("Header constructor skips a title made of white space", "fault", "src/odfdo/header.py", "            if text:\n", "            if text and text.strip():\n", "R05f"),
    Seed("closing blanks cut with a $-anchored search", "fault", _P, '_re_only_spaces = re.compile("^ +$")\n', '_re_only_spaces = re.compile("^ +$")\n_re_closing_spaces = re.compile(" +$")\n', "R05h",
         edits=[(_P, "        result: list[Element | str] = []\n        content = [x for x in _re_spaces_split.split(text) if x]\n",
                 "        result: list[Element | str] = []\n        closing = _re_closing_spaces.search(text)\n        if closing and closing.start() > 0 and closing.end() < 0:\n            text = text[: closing.start()]\n        content = [x for x in _re_spaces_split.split(text) if x]\n")]),
    Seed("inner run keeps its full length besides the literal blank", "fault", _P, "                    spacer = Spacer(len(item) - 1)\n", "                    spacer = Spacer(len(item))\n", "R05a"),
    Seed("last run encoded one short", "fault", _P, "                    spacer = Spacer(len(last_item))\n", "                    spacer = Spacer(len(last_item) - 1)\n", "R05a"),
    Seed("inner run emits two literal blanks", "fault", _P, '                    _merge_text(" ")\n                    result.append(spacer)', '                    _merge_text("  ")\n                    result.append(spacer)', "R05a"),
    Seed("Spacer stores its count only from 3 up", "fault", _PB, "            if number and number >= 2:", "            if number and number >= 3:", "R05b"),
    Seed("text:s without a count reads as two blanks", "fault", _PB, "            return 1  # minimum 1 space", "            return 2  # minimum 1 space", "R05b"),
    Seed("Tab decodes to a blank", "fault", _PB, '    def __str__(self) -> str:\n        return "\\t"', '    def __str__(self) -> str:\n        return " "', "R05c"),
    Seed("line breaks no longer encoded", "fault", _P, '            if bloc == "\\n":\n                result.append(LineBreak())\n                continue\n', "", "R05c"),
    Seed("tabs and line breaks replaced before the blanks are merged", "fault", _P,
         "        content = self._merge_spaces(content)\n        content = self._replace_tabs_lb(content)", "        content = self._replace_tabs_lb(content)\n        content = self._merge_spaces(content)", "R05e"),
    Seed("inner_text drops the tails", "fault", "src/odfdo/element.py", '        return str(self) + (self.tail or "")', "        return str(self)", "R05d"),
    Seed("Span constructor stores plain text raw", "fault", _P,
         "                if formatted:\n                    self.text = \"\"\n                    self.append_plain_text(text)  # type:ignore\n                else:\n                    self.text = self._unformatted(text)  # type:ignore\n            if style:\n                self.style = style\n\n    def __str__",
         "                if formatted and '  ' in text:\n                    self.text = \"\"\n                    self.append_plain_text(text)  # type:ignore\n                elif formatted:\n                    self.text = text\n                else:\n                    self.text = self._unformatted(text)  # type:ignore\n            if style:\n                self.style = style\n\n    def __str__", "R05f"),
    Seed("_merge_spaces re-encodes only the last chunk", "fault", _P,
         "        for item in content:\n            if isinstance(item, str):\n                result.extend(self._sub_merge_spaces(item))",
         "        last = len(content) - 1\n        for index, item in enumerate(content):\n            if index == last and isinstance(item, str):\n                result.extend(self._sub_merge_spaces(item))", "R05g"),
    unparse_seed(_P), unparse_seed(_PB),
    Seed("inner run: count computed in two steps", "neutral", _P, "                    spacer = Spacer(len(item) - 1)\n", "                    spacer = Spacer(len(item) - 2 + 1)\n"),
]
