"""C06 — typed values survive (structural clauses).

R06a  isinstance-chain lattice order (subclass before superclass), package-wide
R06b  encoder/decoder attribute + codec tables agree (cells/variables and meta)
R06c  the three Python-type dispatchers map each type to the same ODF value type
"""

from __future__ import annotations

import ast

from ..paths import structural_guards
from ..core import AnalysisError, FuncInfo, call_name, walk_no_nested, norm
from ..tables import (codec_calls, const_dispatch, if_chains, is_subtype,
                      isinstance_types, str_consts_in_calls)

EXPLANATION = (
    "Static rule discharge over the current source of odfdo (ast only, nothing executed). "
    "R06a enumerates every isinstance dispatch chain of the package and proves no arm is shadowed by an "
    "earlier arm testing a superclass (bool<int, datetime<date, package class lattice). R06b extracts the "
    "writer table value-type -> attribute/codec from set_value_and_type and Meta.set_user_defined_metadata and "
    "the reader tables from _get_typed_value, Cell.value and _get_meta_value_full and compares them row by row. "
    "R06c compares the Python-type -> value-type maps of the three dispatchers. Value domains (huge ints, "
    "Decimal text, tz offsets, microseconds) are not decided."
)
ASSUMPTIONS = [
    "Python data model: bool is a subclass of int, datetime.datetime of datetime.date",
    "lxml attribute get/set store and return the string unchanged",
    "value-level behaviour of the codecs is C18's concern and only partly decided there",
]

GET_ATTR = {"get_attribute", "get_attribute_string", "get_attribute_integer"}


def r06a(ctx):
    repo = ctx.repo
    ctx.rule("R06a", "no isinstance arm is shadowed by an earlier arm testing a superclass", floor=5)
    for f in repo.all_funcs():
        if f.kind == "nested":
            continue
        for chain in if_chains(f.node):
            seen: dict[str, list[tuple[list[str], ast.AST]]] = {}
            arms = []
            for arm in chain:
                if arm.test is None:
                    continue
                it = isinstance_types(arm.test, f.module, repo)
                if it is None:
                    continue
                arms.append((arm, it))
            by_var: dict[str, list] = {}
            for arm, it in arms:
                by_var.setdefault(it[0], []).append((arm, it))
            for var, lst in by_var.items():
                if len(lst) < 2:
                    continue
                bad = False
                earlier: list[tuple[list[str], ast.AST]] = []
                for arm, (v, types, pure) in lst:
                    for et, enode in earlier:
                        shadow = [t for t in types if any(is_subtype(t, e, repo) for e in et)]
                        if shadow and len(shadow) == len(types):
                            bad = True
                            ctx.report(
                                "R06a", f, arm.node, f"isinstance({var}, {', '.join(types)}) after ({', '.join(et)})",
                                f"arm testing {', '.join(types)} can never run: an earlier arm of the same chain "
                                f"tests its superclass ({', '.join(et)}) at line {enode.lineno}; values of the "
                                f"subclass are silently handled as the superclass")
                    if pure:
                        earlier.append((types, arm.node))
                ctx.instance("R06a", f"{f.file}:{f.ident}", f"isinstance chain on {var}: " +
                             " | ".join(",".join(t) for _, (_, t, _) in lst), ok=not bad,
                             nontrivial=len(lst) >= 3, line=lst[0][0].node.lineno)


def _vt_var(f: FuncInfo) -> str:
    """The local (or parameter) of f that holds the ODF value type: the parameter `value_type`, else the local read from / written to a
    `…:value-type` attribute."""
    if any(a.arg == "value_type" for a in f.all_params()):
        return "value_type"
    for n in walk_no_nested(f.node):
        if isinstance(n, ast.Assign) and len(n.targets) == 1 and isinstance(n.targets[0], ast.Name) and isinstance(n.value, ast.Call) \
                and call_name(n.value) in GET_ATTR and n.value.args and isinstance(n.value.args[0], ast.Constant) and str(n.value.args[0].value).endswith("value-type"):
            return n.targets[0].id
    for n in walk_no_nested(f.node):
        if isinstance(n, ast.Call) and call_name(n) == "set_attribute" and len(n.args) == 2 and isinstance(n.args[0], ast.Constant) \
                and str(n.args[0].value).endswith("value-type") and isinstance(n.args[1], ast.Name):
            return n.args[1].id
    return "value_type"


def _type_arms(ctx, f: FuncInfo, var: str):
    """[(types, default value_type, encoders, arm)] of the isinstance chain on `var` in f."""
    repo = ctx.repo
    out = []
    vtv = _vt_var(f)
    for chain in if_chains(f.node):
        rows = []
        for arm in chain:
            it = isinstance_types(arm.test, f.module, repo) if arm.test is not None else None
            if it is None or it[0] != var or not it[2]:
                continue
            vt = None
            for n in arm.body:
                for a in walk_no_nested(n):
                    if isinstance(a, ast.Assign) and len(a.targets) == 1 and isinstance(a.targets[0], ast.Name) \
                            and a.targets[0].id == vtv and isinstance(a.value, ast.Constant):
                        vt = a.value.value
            rows.append((it[1], vt, codec_calls(arm.body, "encode"), arm))
        if len(rows) >= 4:
            out = rows
    return out


def _getter_bodies(ctx, f: FuncInfo, body):
    """Bodies of property getters read as self.X inside `body` (one level)."""
    extra = []
    if f.cls is None:
        return extra
    for s in body:
        for n in walk_no_nested(s):
            if isinstance(n, ast.Attribute) and isinstance(n.value, ast.Name) and n.value.id == "self" \
                    and isinstance(n.ctx, ast.Load):
                g = f.cls.lookup(n.attr, "getter")
                if g is not None:
                    extra += g.node.body
    return extra


def _reader_table(ctx, f: FuncInfo, var: str):
    """value_type const -> (attrs read, decoders, has_T_split, boolean_native, arm)."""
    repo = ctx.repo
    table = {}
    elem_get = repo.func("Element.get_attribute")
    native_bool = "Boolean" in codec_calls(elem_get.node.body, "decode")
    for consts, arm in const_dispatch(f, var, repo):
        body = list(arm.body) + _getter_bodies(ctx, f, arm.body)
        attrs = {a for a, _ in str_consts_in_calls(body, GET_ATTR)}
        dec = codec_calls(body, "decode")
        tsplit = False
        boolnat = False
        for s in body:
            for n in walk_no_nested(s):
                if isinstance(n, ast.If):
                    from ..paths import if_arms
                    core, when_t, when_f = if_arms(n)
                    if isinstance(core, ast.Compare) and isinstance(core.ops[0], (ast.In, ast.NotIn)) and isinstance(core.left, ast.Constant) and core.left.value == "T":
                        if isinstance(core.ops[0], ast.NotIn):
                            when_t, when_f = when_f, when_t
                        # with a 'T' → DateTime; without → Date (in the other arm, or in what follows when the T arm returns)
                        if "DateTime" in codec_calls(when_t, "decode") and "Date" in (
                                codec_calls(when_f, "decode") | codec_calls(_following(arm.body, n), "decode")):
                            tsplit = True
                if isinstance(n, ast.Compare) and any(isinstance(c, ast.Constant) and c.value == "true"
                                                      for c in n.comparators):
                    boolnat = True
                if isinstance(n, ast.Call) and isinstance(n.func, ast.Attribute) and n.func.attr == "get_attribute" \
                        and native_bool:
                    boolnat = True
        for c in consts:
            table[c] = (attrs, dec, tsplit, boolnat, arm)
    return table


def _following(body, node):
    for i, s in enumerate(body):
        if s is node:
            return body[i + 1:]
    return []


def r06b(ctx):
    repo = ctx.repo
    ctx.rule("R06b", "what the typed-value encoder writes is what every decoder reads (attribute and codec per value type)", floor=15)
    w = repo.func("ElementTyped.set_value_and_type")
    tarms = _type_arms(ctx, w, "value")
    if not tarms:
        raise AnalysisError("R06b: python-type dispatch of set_value_and_type not found")
    wtab = {}
    for consts, arm in const_dispatch(w, "value_type", repo):
        attrs = {a for a, _ in str_consts_in_calls(arm.body, {"set_attribute"})}
        if attrs:
            for c in consts:
                wtab[c] = (attrs, arm)
    if len(wtab) < 5:
        raise AnalysisError("R06b: value_type -> attribute table of set_value_and_type not found")
    enc: dict[str, set[str]] = {}
    for types, vt, encs, arm in tarms:
        if vt is None:
            ctx.report("R06b", w, arm.node, f"isinstance(value, {','.join(types)})",
                       "python-type arm sets no default value_type")
            continue
        enc.setdefault(vt, set()).update(encs)
    # cleared attributes ⊇ written attributes
    cleared = set()
    for n in walk_no_nested(w.node):
        if isinstance(n, ast.For) and isinstance(n.iter, ast.Tuple):
            vals = [e.value for e in n.iter.elts if isinstance(e, ast.Constant)]
            if any(c.func.attr == "del_attribute" for c in ast.walk(n) if isinstance(c, ast.Call) and isinstance(c.func, ast.Attribute)):
                cleared.update(vals)
    written = set().union(*(a for a, _ in wtab.values())) | {"office:value-type", "calcext:value-type"}
    stale = {a for a in written if a.startswith(("office:", "table:")) and a not in cleared}
    ctx.instance("R06b", f"{w.file}:{w.ident}", "every office:* attribute written is first cleared", ok=not stale, nontrivial=True)
    if stale:
        ctx.report("R06b", w, w.node, f"not cleared: {sorted(stale)}",
                   "attribute written for one value type is not removed when the value is replaced by another type")
    readers = [(rf_, _vt_var(rf_)) for rf_ in (repo.func("ElementTyped._get_typed_value"), repo.func("Cell.value", "getter"))]
    for rf, var in readers:
        rtab = _reader_table(ctx, rf, var)
        if len(rtab) < 5:
            raise AnalysisError(f"R06b: value_type dispatch of {rf.ident} not found")
        for vt in sorted(enc):
            wattrs = wtab.get(vt, (set(), None))[0]
            ok = True
            if vt not in rtab:
                ok = False
                ctx.report("R06b", rf, rf.node, f"value type {vt!r}", f"value type {vt!r} written by set_value_and_type has no reading arm")
            else:
                rattrs, dec, tsplit, boolnat, arm = rtab[vt]
                office = {a for a in rattrs if a.startswith("office:") and a != "office:value-type"}
                if not office or not office <= wattrs:
                    ok = False
                    ctx.report("R06b", rf, arm.node, f"{vt}: reads {sorted(office)} / written {sorted(wattrs)}",
                               f"for value type {vt!r} the reader reads {sorted(office) or 'nothing'} but the writer stores {sorted(wattrs)}")
                need = set(enc[vt])
                if "Boolean" in need and boolnat:
                    need.discard("Boolean")
                if not need <= dec:
                    ok = False
                    ctx.report("R06b", rf, arm.node, f"{vt}: encoded with {sorted(enc[vt])} / decoded with {sorted(dec)}",
                               f"value type {vt!r} is encoded with {sorted(enc[vt])} but decoded with {sorted(dec) or 'nothing'}")
                if {"Date", "DateTime"} <= enc[vt] and not tsplit:
                    ok = False
                    ctx.report("R06b", rf, arm.node, f"{vt}: no 'T' split",
                               "date values are written by both Date and DateTime encoders but the reader does not split on 'T' "
                               "(DateTime.decode when 'T' in the string, Date.decode otherwise)")
            ctx.instance("R06b", f"{rf.file}:{rf.ident}", f"value type {vt}: attribute + codec agreement with writer", ok=ok,
                         nontrivial=True, line=rtab[vt][4].node.lineno if vt in rtab else None)
    # numbers: the readers convert the stored text exactly (Decimal), never through float
    for rf, var in readers + [(repo.func("Meta._get_meta_value_full"), _vt_var(repo.func("Meta._get_meta_value_full")))]:
        for consts, arm in const_dispatch(rf, var, repo):
            if "float" not in consts:
                continue
            conv = {call_name(c) for s_ in arm.body for c in walk_no_nested(s_) if isinstance(c, ast.Call) and call_name(c) in ("Decimal", "float", "Float", "int")}
            ok = "Decimal" in conv and not ({"float", "Float"} & conv)
            ctx.instance("R06b", f"{rf.file}:{rf.ident}", f"numeric arm converts with {sorted(conv)}", ok=ok, nontrivial=True, line=arm.node.lineno)
            if not ok:
                ctx.report("R06b", rf, arm.node, f"numeric arm converts with {sorted(conv)}",
                           "numbers are written as str(value) and must be read back exactly with Decimal (int when integral); a float conversion "
                           "silently rounds large integers and long decimals")
    wnum = [arm for types, vt, encs, arm in tarms if "int" in types]
    for arm in wnum:
        vals = [ast.unparse(a.value) for s_ in arm.body for a in walk_no_nested(s_) if isinstance(a, ast.Assign) and isinstance(a.targets[0], ast.Name)
                and a.targets[0].id == "value"]
        ok = vals == ["str(value)"]
        ctx.instance("R06b", f"{w.file}:{w.ident}", f"numeric value written as {vals}", ok=ok, nontrivial=True, line=arm.node.lineno)
        if not ok:
            ctx.report("R06b", w, arm.node, f"numeric value written as {vals}", "numbers must be written as str(value) (exact for int and Decimal)")
    # meta carrier
    mw = repo.func("Meta.set_user_defined_metadata")
    mr = repo.func("Meta._get_meta_value_full")
    marms = _type_arms(ctx, mw, "value")
    if not marms:
        raise AnalysisError("R06b: python-type dispatch of Meta.set_user_defined_metadata not found")
    menc: dict[str, set[str]] = {}
    for types, vt, encs, arm in marms:
        if vt is not None:
            menc.setdefault(vt, set()).update(encs)
            if "bool" in types and not encs:
                # literal "true"/"false" written
                lits = {n.value for s in arm.body for n in ast.walk(s) if isinstance(n, ast.Constant) and isinstance(n.value, str)}
                if {"true", "false"} <= lits:
                    menc[vt].add("Boolean")
    mtab = _reader_table(ctx, mr, _vt_var(mr))
    for vt in sorted(menc):
        ok = True
        if vt not in mtab:
            ok = False
            ctx.report("R06b", mr, mr.node, f"value type {vt!r}", f"value type {vt!r} written by set_user_defined_metadata has no reading arm")
        else:
            _, dec, tsplit, boolnat, arm = mtab[vt]
            if not menc[vt] <= dec:
                ok = False
                ctx.report("R06b", mr, arm.node, f"{vt}: encoded with {sorted(menc[vt])} / decoded with {sorted(dec)}",
                           f"meta value type {vt!r} is encoded with {sorted(menc[vt])} but decoded with {sorted(dec) or 'nothing'}")
            if {"Date", "DateTime"} <= menc[vt] and not tsplit:
                ok = False
                ctx.report("R06b", mr, arm.node, f"{vt}: no 'T' split", "meta date reader does not split Date/DateTime on 'T'")
        ctx.instance("R06b", f"{mr.file}:{mr.ident}", f"meta value type {vt}: codec agreement with writer", ok=ok, nontrivial=True)


def _type_to_vt(ctx):
    """Python type -> value type for each of the three dispatchers."""
    repo = ctx.repo
    out = {}
    for qual in ("ElementTyped.set_value_and_type", "Meta.set_user_defined_metadata"):
        f = repo.func(qual)
        d = {}
        for types, vt, _, arm in _type_arms(ctx, f, "value"):
            for t in types:
                d.setdefault(t, (vt, arm.node))
        out[qual] = (f, d)
    # Cell.value setter: type -> property -> constant written to office:value-type by that property's setter
    f = repo.func("Cell.value", "setter")
    d = {}
    for chain in if_chains(f.node):
        for arm in chain:
            it = isinstance_types(arm.test, f.module, repo) if arm.test is not None else None
            if it is None or it[0] != "value" or not it[2]:
                continue
            vt = None
            for s in arm.body:
                if isinstance(s, ast.Assign) and isinstance(s.targets[0], ast.Attribute) and isinstance(s.targets[0].value, ast.Name) \
                        and s.targets[0].value.id == "self":
                    st = f.cls.lookup(s.targets[0].attr, "setter")
                    if st is not None:
                        for c in ast.walk(st.node):
                            if isinstance(c, ast.Call) and isinstance(c.func, ast.Attribute) and c.func.attr == "set_attribute" \
                                    and len(c.args) == 2 and isinstance(c.args[0], ast.Constant) and c.args[0].value == "office:value-type" \
                                    and isinstance(c.args[1], ast.Constant):
                                vt = c.args[1].value
            for t in it[1]:
                d.setdefault(t, (vt, arm.node))
    out["Cell.value [setter]"] = (f, d)
    return out


def r06c(ctx):
    ctx.rule("R06c", "sibling dispatchers map each Python type to the same ODF value type", floor=10)
    maps = _type_to_vt(ctx)
    ref_name = "ElementTyped.set_value_and_type"
    ref_f, ref = maps[ref_name]
    if len(ref) < 7:
        raise AnalysisError("R06c: reference dispatcher table too small")
    for name, (f, d) in maps.items():
        if name == ref_name:
            continue
        if len(d) < 6:
            raise AnalysisError(f"R06c: dispatcher table of {name} too small ({len(d)})")
        for t, (vt, node) in sorted(d.items()):
            if t not in ref:
                continue
            ok = vt == ref[t][0]
            ctx.instance("R06c", f"{f.file}:{f.ident}", f"{t} -> {vt} (reference {ref[t][0]})", ok=ok, nontrivial=True, line=node.lineno)
            if not ok:
                ctx.report("R06c", f, node, f"{t} -> {vt} vs {ref[t][0]}",
                           f"Python type {t} is stored as value type {vt!r} here but as {ref[t][0]!r} by {ref_name}")
        missing = [t for t in ref if t not in d and t not in ("bytes",)]
        for t in missing:
            ctx.instance("R06c", f"{f.file}:{f.ident}", f"{t} handled", ok=False)
            ctx.report("R06c", f, f.node, f"type {t} not dispatched", f"Python type {t} handled by {ref_name} has no arm in {name}")


def r06d(ctx):
    """Type and value are written together: every path that writes a typed value also writes its value type."""
    repo = ctx.repo
    from ..paths import cfg_of, node_of
    ctx.rule("R06d", "wherever a typed value is written, its value-type attribute is written on the same path", floor=8)
    VALUE_ATTRS = {"office:value", "office:boolean-value", "office:date-value", "office:time-value", "office:string-value"}
    for f in repo.all_funcs():
        if f.kind == "nested":
            continue
        tw, vw = [], []
        for n in walk_no_nested(f.node):
            if isinstance(n, ast.Call) and call_name(n) == "set_attribute" and n.args:
                a0 = repo.fold(n.args[0], f.module, f.cls)
                if isinstance(a0, str) and a0.endswith(":value-type") and a0.split(":")[0] in ("office", "meta"):
                    tw.append(n)
                elif a0 in VALUE_ATTRS:
                    vw.append(n)
            if isinstance(n, ast.Assign) and isinstance(n.targets[0], ast.Attribute) and n.targets[0].attr == "text" and tw is not None \
                    and f.name in ("set_user_defined_metadata",):
                vw.append(n)
        if not tw or not vw:
            continue
        cfg = cfg_of(f)
        tn = [node_of(cfg, t) for t in tw]
        for v in vw:
            vn = node_of(cfg, v)
            # the type write lies on every path entry -> v, or on every path v -> exit
            before = cfg.path_avoiding(cfg.entry, vn, tn, follow_exc=False) is None
            after = cfg.path_avoiding(vn, cfg.exit, tn, follow_exc=False) is None
            # set_value_and_type: the type write is guarded by `value_type is not None` only, the value writes by `value_type == c`
            guarded_same = False
            if not (before or after):
                from ..paths import structural_guards
                gt = [ast.unparse(t) for t, pol in structural_guards(tw[0], stop=f.node) if pol]
                guarded_same = gt == ["value_type is not None"] and any("value_type" in ast.unparse(t) for t, pol in structural_guards(v, stop=f.node))
            ok = before or after or guarded_same
            ctx.instance("R06d", f"{f.file}:{f.ident}", f"{norm(v, 50)} is accompanied by the value-type write on every path", ok=ok, nontrivial=True, line=v.lineno)
            if not ok:
                ctx.report("R06d", f, v, f"{norm(v, 50)} without value-type on some path",
                           "a path writes the value but not its value type: overwriting a value of another type leaves the old type, and the value is "
                           "read back as the wrong Python type")


def enclosing_for(n, stop):
    from ..paths import enclosing_loops
    return [x for x in enclosing_loops(n) if x is not stop]


def r06e(ctx):
    """Bulk setters encode every input value on its own.

    A value of a bulk setter reaches the XML only through its own typed-value encoder call
    (`Cell(value, …)`, `set_value(…, value)`).  Whether two *Python* values are "the same" says
    nothing about their ODF form (True == 1 == 1.0, Decimal('1.10') == Decimal('1.1')), so an
    iteration that does not hand its element to the encoder — skipped, merged into the
    previous cell, filtered by a comprehension `if` — changes type or lexical form.  Rule:
    in every loop over input values that contains an encoder call on the loop element, each
    path through one iteration passes such a call; comprehensions carry no filter.
    """
    from ..paths import cfg_of, node_of
    repo = ctx.repo
    ctx.rule("R06e", "bulk setters hand every input value to its own typed-value encoder call (no value skipped, merged or filtered)", floor=4)
    ENC = {"Cell", "set_value", "set_cell_value", "set_user_defined_metadata"}

    def derived(body_nodes, seeds):
        names = set(seeds)
        for _ in range(3):
            for n in body_nodes:
                for a in ast.walk(n):
                    if isinstance(a, ast.Assign) and len(a.targets) == 1 and isinstance(a.targets[0], ast.Name) \
                            and any(isinstance(x, ast.Name) and x.id in names for x in ast.walk(a.value)):
                        names.add(a.targets[0].id)
        return names

    def targets(t):
        return {x.id for x in ast.walk(t) if isinstance(x, ast.Name)}

    def enc_calls(scope_nodes, names):
        out = []
        for n in scope_nodes:
            for c in ast.walk(n):
                if isinstance(c, ast.Call) and call_name(c) in ENC:
                    args = list(c.args) + [k.value for k in c.keywords]
                    # the value argument itself is the element (not merely an index derived from it)
                    if any(isinstance(x, ast.Name) and x.id in names for a in args for x in ast.walk(a)):
                        out.append(c)
        return out

    n_inst = 0
    for f in repo.all_funcs():
        if f.file not in ("src/odfdo/row.py", "src/odfdo/table.py", "src/odfdo/meta.py"):
            continue
        for n in walk_no_nested(f.node):
            if isinstance(n, ast.For):
                names = derived(n.body, targets(n.target))
                encs = enc_calls(n.body, names)
                if not encs:
                    continue
                n_inst += 1
                cfg = cfg_of(f)
                head = node_of(cfg, n)
                # the loop over the caller's values is itself on every normal path: a return taken because the new values "equal" what is stored
                # (dict/list equality is Python equality: True == Decimal('1')) writes nothing
                fparams = {a.arg for a in f.all_params()} - {"self", "cls"}
                if fparams & {x.id for x in ast.walk(n.iter) if isinstance(x, ast.Name)} and head is not None and not enclosing_for(n, f.node):
                    byp = cfg.path_avoiding(cfg.entry, cfg.exit, [head], follow_exc=False)
                    if byp is not None:
                        last = [x for x in byp if x.stmt is not None][-1].stmt
                        gs = structural_guards(last, stop=f.node)
                        eqs = [t for t, _pol in gs if any(isinstance(x, ast.Compare) and any(isinstance(o, (ast.Eq, ast.NotEq)) for o in x.ops) and not any(
                            isinstance(y, ast.Constant) for y in [x.left] + x.comparators) for x in ast.walk(t))]
                        okb = not eqs
                        ctx.instance("R06e", f"{f.file}:{f.ident}", f"the loop over {norm(n.iter, 30)} is not skipped on a comparison of values", ok=okb, nontrivial=True, line=n.lineno)
                        if not okb:
                            ctx.report("R06e", f, last, f"`{norm(last, 30)}` under `{norm(eqs[0], 50)}` skips the loop over {norm(n.iter, 30)}",
                                       f"{f.ident} returns without encoding anything when `{norm(eqs[0], 50)}`: Python equality is not ODF identity (True == Decimal('1'), "
                                       f"Decimal('1.50') == Decimal('1.5')), so values of another type or lexical form than the stored ones are never written")
                via = [node_of(cfg, c) for c in encs]
                via = [v for v in via if v is not None]
                first = node_of(cfg, n.body[0])
                cex = cfg.path_avoiding(first, head, via, follow_exc=False) if first is not None and head is not None else None
                ok = cex is None
                ctx.instance("R06e", f"{f.file}:{f.ident}", f"for {norm(n.target, 20)} in {norm(n.iter, 30)}: every iteration reaches {norm(encs[0], 40)}",
                             ok=ok, nontrivial=True, line=n.lineno)
                if not ok:
                    skip = [x for x in cex if x.stmt is not None][-1]
                    ctx.report("R06e", f, skip.stmt, f"iteration over {norm(n.iter, 30)} can end at `{norm(skip.stmt, 50)}` without encoding its element",
                               f"{f.ident} lets an input value through without its own typed-value encoder call: the cell then carries the type and lexical form "
                               f"of another value (Python equality or truthiness is not ODF identity: True == 1 == 1.0, Decimal('1.10') == Decimal('1.1'))")
            elif isinstance(n, (ast.ListComp, ast.GeneratorExp, ast.SetComp)):
                names = set()
                for g in n.generators:
                    names |= targets(g.target)
                encs = enc_calls([n.elt], names)
                if not encs:
                    continue
                n_inst += 1
                filt = [i for g in n.generators for i in g.ifs]
                whole = n.elt is encs[0] or (isinstance(n.elt, ast.Call) and encs[0] in ast.walk(n.elt) and not any(isinstance(x, ast.IfExp) for x in ast.walk(n.elt)))
                ok = not filt and whole
                ctx.instance("R06e", f"{f.file}:{f.ident}", f"[{norm(n.elt, 40)} for {norm(n.generators[0].target, 15)} in {norm(n.generators[0].iter, 25)}] unfiltered",
                             ok=ok, nontrivial=False, line=n.lineno)
                if not ok:
                    ctx.report("R06e", f, n, f"comprehension over {norm(n.generators[0].iter, 25)} filters or conditionally encodes its elements",
                               f"{f.ident} drops or substitutes input values before they are encoded")
    if n_inst == 0:
        raise AnalysisError("R06e: no bulk setter loop found in row.py/table.py")


def r06g(ctx):
    """A stored value is absent only when it is None.

    The typed readers fetch the raw text of an attribute or element and decode it by value type.  "" is a string value, "0" a number,
    "false" a boolean: a truth test on the raw text (`if not text: return None`) turns a stored empty string into "no value" — the entry
    reads back as None, and a UserDefined built from the document then writes no value at all.  Rule: in every type-dispatching reader
    (a function that compares a value type with "boolean"/"float"/"string" …) a local bound to raw text (`.text`, `get_attribute*()`) is
    tested with `is None` / `is not None` only, never for truth.
    """
    repo = ctx.repo
    ctx.rule("R06g", "type-dispatching readers test raw text with `is None` only (an empty string is a value)", floor=3)
    n = 0
    for f in repo.all_funcs():
        if f.kind in ("nested", "setter") or f.file.startswith("src/odfdo/scripts"):
            continue
        consts = {x.value for x in walk_no_nested(f.node) if isinstance(x, ast.Constant) and isinstance(x.value, str)}
        if not {"boolean", "string"} <= consts or not any(isinstance(x, ast.Compare) for x in walk_no_nested(f.node)):
            continue
        raw = set()
        for a in walk_no_nested(f.node):
            if isinstance(a, ast.Assign) and len(a.targets) == 1 and isinstance(a.targets[0], ast.Name):
                v = a.value
                if isinstance(v, ast.Attribute) and v.attr in ("text", "tail") or isinstance(v, ast.Call) and call_name(v).startswith("get_attribute"):
                    raw.add(a.targets[0].id)
        raw -= {x for x in raw if "type" in x}  # the value type itself may default (`or "string"`)
        if not raw:
            continue
        n += 1
        bad = []
        for st in walk_no_nested(f.node):
            tests = [st.test] if isinstance(st, (ast.If, ast.While, ast.IfExp)) else []
            for t in tests:
                parts_ = [t]
                while parts_:
                    e = parts_.pop()
                    if isinstance(e, ast.BoolOp):
                        parts_ += e.values
                    elif isinstance(e, ast.UnaryOp) and isinstance(e.op, ast.Not):
                        parts_.append(e.operand)
                    elif isinstance(e, ast.Name) and e.id in raw:
                        bad.append((st, e.id))
        ctx.instance("R06g", f"{f.file}:{f.ident}", f"raw text {sorted(raw)} tested with `is None` only", ok=not bad, nontrivial=True, line=f.node.lineno)
        for st, nm in bad[:1]:
            ctx.report("R06g", f, st, f"truth test on `{nm}`: {norm(st.test if hasattr(st, 'test') else st, 40)}",
                       f"{f.ident} decides by the truth of the raw text `{nm}`: an empty string (a valid string value) or any other false-looking text is treated as \"no value\" and "
                       f"read back as something else than what was stored")
    if n < 3:
        raise AnalysisError(f"R06g: only {n} type-dispatching reader(s) found")


_TIME_FIELDS = {"hour", "minute", "second", "microsecond", "tzinfo", "utcoffset", "time", "timetz", "days", "seconds", "microseconds"}


def r06h(ctx):
    """The lexical form follows the type of the value, not what the value happens to be.

    A datetime is written in date-time form, a date in date form; which one is decided by isinstance.  A choice made on the content —
    "midnight, so the short form will do" — forgets what the test does not mention: a time-zone-aware datetime at local midnight loses
    its offset and comes back naive.  Rule: a call of `Date.encode` / `DateTime.encode` / `Duration.encode` is guarded by isinstance tests,
    None tests and flags only — no guard reads a field of the value (hour, minute, second, microsecond, tzinfo …).
    """
    repo = ctx.repo
    ctx.rule("R06h", "the choice of Date/DateTime/Duration encoder is made on the type of the value, never on its fields", floor=12)
    n = 0
    for f in repo.all_funcs():
        if "/scripts/" in f.file:
            continue
        for c in walk_no_nested(f.node):
            if not (isinstance(c, ast.Call) and isinstance(c.func, ast.Attribute) and c.func.attr == "encode" and isinstance(c.func.value, ast.Name)
                    and c.func.value.id in ("Date", "DateTime", "Duration")):
                continue
            n += 1
            bad = [t for t, _pol in structural_guards(c, stop=f.node)
                   if any(isinstance(x, ast.Attribute) and x.attr in _TIME_FIELDS for x in ast.walk(t))]
            ctx.instance("R06h", f"{f.file}:{f.ident}", f"`{norm(c, 30)}` chosen by type", ok=not bad, nontrivial=bool(bad), line=c.lineno)
            for t in bad[:1]:
                ctx.report("R06h", f, c, f"{norm(c, 40)} under `{norm(t, 50)}`",
                           f"{f.ident} picks the encoder by looking at fields of the value (`{norm(t, 50)}`): values the test does not describe completely — a time-zone-aware datetime "
                           f"at midnight — are written in a form that drops part of them, and read back as another value")
    if n < 12:
        raise AnalysisError(f"R06h: only {n} date/time encoder call(s) found")


def r06f(ctx):
    """The number written to office:value is the number that was given.

    `str()` of an int, a float or a Decimal is exact (Python prints the shortest string that reads back as the same float); what is not exact
    is a detour through another numeric type or a format with a fixed precision: `int(float(v))` rounds integers beyond 2**53, `f"{v:f}"` /
    `"%f" % v` keep six decimals, `round()` cuts.  Rule: in every function that writes `office:value`, the expressions the written string is
    built from (backward def-use closure inside the function) contain no float()/Float() nested inside an int()/Decimal() conversion, no
    format specification, no %-formatting with a numeric conversion, no round()/format().
    """
    repo = ctx.repo
    ctx.rule("R06f", "the string written to office:value is an exact rendering of the number (no lossy numeric detour or fixed-precision format)", floor=5)
    n = 0
    for f in repo.all_funcs():
        if f.kind == "nested":
            continue
        writes = [c for c in walk_no_nested(f.node) if isinstance(c, ast.Call) and call_name(c) == "set_attribute" and len(c.args) == 2
                  and repo.fold(c.args[0], f.module, f.cls) in ("office:value", "calcext:value")]
        if not writes:
            continue
        defs: dict[str, list[ast.expr]] = {}
        for a in walk_no_nested(f.node):
            if isinstance(a, ast.Assign) and len(a.targets) == 1 and isinstance(a.targets[0], ast.Name):
                defs.setdefault(a.targets[0].id, []).append(a.value)
        for w in writes:
            n += 1
            seen, work, exprs = set(), [w.args[1]], []
            while work:
                e = work.pop()
                if id(e) in seen:
                    continue
                seen.add(id(e))
                exprs.append(e)
                for x in ast.walk(e):
                    if isinstance(x, ast.Name):
                        work.extend(defs.get(x.id, []))
            bad = None
            for e in exprs:
                for x in ast.walk(e):
                    if isinstance(x, ast.Call) and call_name(x) in ("int", "Decimal") and any(isinstance(y, ast.Call) and call_name(y) in ("float", "Float") for a_ in x.args for y in ast.walk(a_)):
                        bad = (x, "an integer/decimal is converted through a binary float")
                    elif isinstance(x, ast.FormattedValue) and x.format_spec is not None:
                        bad = (x, "a format specification fixes the number of digits")
                    elif isinstance(x, ast.BinOp) and isinstance(x.op, ast.Mod) and isinstance(x.left, ast.Constant) and isinstance(x.left.value, str) \
                            and any(k in x.left.value for k in ("%f", "%e", "%g", "%.", "%d")):
                        bad = (x, "%-formatting fixes the number of digits")
                    elif isinstance(x, ast.Call) and isinstance(x.func, ast.Name) and x.func.id in ("round", "format"):
                        bad = (x, f"{x.func.id}() changes the digits")
            ctx.instance("R06f", f"{f.file}:{f.ident}", f"{norm(w, 50)}: " + ("exact rendering" if bad is None else bad[1]), ok=bad is None, nontrivial=True, line=w.lineno)
            if bad is not None:
                ctx.report("R06f", f, bad[0], f"{norm(bad[0], 50)} on the way to {norm(w, 40)}",
                           f"{f.ident} writes office:value from `{norm(bad[0], 40)}`: {bad[1]}, so huge integers, tiny floats or long decimals are stored as another number "
                           f"than the one given (and read back as that other number, by odfdo and by every other application)")
    if n == 0:
        raise AnalysisError("R06f: no writer of office:value found")
    # readers: the type-dispatching readers (the arm taken for float / percentage / currency) return Decimal(<attribute text>) or its int() when integral;
    # nothing in that arm changes digits (Decimal.normalize()/quantize() round to the context precision of 28 digits, float() to 53 bits)
    from ..paths import if_arms
    NUM_REWRITE = {"normalize", "quantize", "to_integral", "to_integral_value", "to_integral_exact", "to_eng_string", "scaleb", "fma", "__round__", "as_integer_ratio"}
    m = 0
    for f in repo.all_funcs():
        if f.kind in ("nested", "setter"):
            continue
        for st in walk_no_nested(f.node):
            if not isinstance(st, ast.If):
                continue
            core, when_t, _ = if_arms(st)
            consts = {c.value for x in ast.walk(core) if isinstance(x, (ast.Set, ast.Tuple, ast.List)) for c in x.elts if isinstance(c, ast.Constant)}
            if "float" not in consts or not any(isinstance(x, ast.Call) and call_name(x).startswith("get_attribute") and x.args
                                                and repo.fold(x.args[0], f.module, f.cls) == "office:value" for s_ in when_t for x in ast.walk(s_)):
                continue
            m += 1
            bad = None
            for s_ in when_t:
                for x in ast.walk(s_):
                    if isinstance(x, ast.Call) and isinstance(x.func, ast.Attribute) and x.func.attr in NUM_REWRITE:
                        bad = (x, f".{x.func.attr}() rounds to the decimal context precision or rewrites the digits")
                    elif isinstance(x, ast.Call) and isinstance(x.func, ast.Name) and x.func.id in ("round", "format", "float", "Float"):
                        bad = (x, f"{x.func.id}() changes the digits")
                    elif isinstance(x, ast.FormattedValue) and x.format_spec is not None:
                        bad = (x, "a format specification fixes the number of digits")
            ctx.instance("R06f", f"{f.file}:{f.ident}", "numeric arm of the typed reader: " + ("Decimal of the attribute text, digits untouched" if bad is None else bad[1]),
                         ok=bad is None, nontrivial=True, line=st.lineno)
            if bad is not None:
                ctx.report("R06f", f, bad[0], f"{norm(bad[0], 50)} in the numeric arm of {f.ident}",
                           f"{f.ident} reads office:value through `{norm(bad[0], 40)}`: {bad[1]}, so integers and decimals with more digits than that come back as another number "
                           f"than the one stored")
    if m < 2:
        raise AnalysisError(f"R06f: only {m} type-dispatching reader(s) of office:value found (expected ElementTyped._get_typed_value and Cell.value)")


def r06i(ctx):
    """A boolean is not taken for a number.

    In Python `True` is an `int`: `isinstance(True, (int, float, Decimal))` holds.  The typed-value writers therefore test for bool first and
    reach the numeric arm only once bool is excluded.  A helper on the same path that asks "is it a number?" on its own — to keep the type of
    the field, to pick a format — sends booleans down the numeric road: `office:value-type="float"` with `office:value="true"`, which no
    reader accepts.  Rule: in the modules that write typed values (cell, element_typed, variable, meta), every `isinstance(v, T)` with int in
    T and bool not in T is evaluated only where `isinstance(v, bool)` has already been answered no (an earlier arm of the same chain or an
    earlier early exit).
    """
    repo = ctx.repo
    ctx.rule("R06i", "on the typed-value path a test for int is reached only after bool has been excluded", floor=3)
    n = 0
    for f in repo.all_funcs():
        if not f.file.endswith(("/cell.py", "/element_typed.py", "/variable.py", "/meta.py")):
            continue
        for t in walk_no_nested(f.node):
            if not (isinstance(t, ast.Call) and call_name(t) == "isinstance" and len(t.args) == 2 and isinstance(t.args[0], ast.Name)):
                continue
            names = {x.id for x in ast.walk(t.args[1]) if isinstance(x, ast.Name)}
            if "int" not in names or "bool" in names:
                continue
            v = t.args[0].id
            # a pure validation (`if not isinstance(v, int): raise …`) chooses no encoding
            from ..core import parent as _parent0
            from ..paths import if_arms
            holder = _parent0(t)
            while isinstance(holder, ast.UnaryOp):
                holder = _parent0(holder)
            if isinstance(holder, ast.If):
                core, when_true, when_false = if_arms(holder)
                if core is t and not when_true and when_false and isinstance(when_false[-1], ast.Raise):
                    continue
            n += 1
            # the guards in force where the test itself is evaluated
            guards = structural_guards(t, stop=f.node)
            # an `elif` arm: the test is the `test` of an If that sits in the orelse of the arms before it
            excluded = any((not pol) and isinstance(g, ast.Call) and call_name(g) == "isinstance" and isinstance(g.args[0], ast.Name) and g.args[0].id == v
                           and "bool" in {x.id for x in ast.walk(g.args[1]) if isinstance(x, ast.Name)} for g, pol in guards)
            if not excluded:
                cur = t
                from ..core import parent as _parent
                while cur is not None and cur is not f.node:
                    par = _parent(cur)
                    if isinstance(par, ast.If) and cur is par.test:
                        # walk up the elif chain
                        up = par
                        while True:
                            pp = _parent(up)
                            if isinstance(pp, ast.If) and up in pp.orelse:
                                g = pp.test
                                if isinstance(g, ast.Call) and call_name(g) == "isinstance" and isinstance(g.args[0], ast.Name) and g.args[0].id == v \
                                        and "bool" in {x.id for x in ast.walk(g.args[1]) if isinstance(x, ast.Name)}:
                                    excluded = True
                                up = pp
                            else:
                                break
                        guards2 = structural_guards(par, stop=f.node)
                        excluded = excluded or any((not pol) and isinstance(g, ast.Call) and call_name(g) == "isinstance" and isinstance(g.args[0], ast.Name) and g.args[0].id == v
                                                   and "bool" in {x.id for x in ast.walk(g.args[1]) if isinstance(x, ast.Name)} for g, pol in guards2)
                        break
                    cur = par
            ctx.instance("R06i", f"{f.file}:{f.ident}", f"{norm(t, 50)}: bool excluded before", ok=excluded, nontrivial=True, line=t.lineno)
            if not excluded:
                ctx.report("R06i", f, t, norm(t, 60),
                           f"{f.ident} asks `{norm(t, 50)}` without having excluded bool: True and False are ints, so a boolean takes the numeric road here — on the typed-value "
                           f"path that stores `office:value-type` float/percentage/currency next to `office:value=\"true\"`, which does not read back")
    if n < 3:
        raise AnalysisError(f"R06i: only {n} int test(s) found on the typed-value path")


_VALUE_OPTIONS = {"cell_type", "value_type", "currency", "style", "text", "formula"}


def r06j(ctx):
    """The options of a typed value arrive under their own name.

    The value-setting shortcuts hand `cell_type`, `currency`, `style` … on to the setter below them.  The setters do not agree on the order of
    those parameters (Row.set_value: style, cell_type, currency — Table.set_value: cell_type, currency, style), so a positional hand-over that
    is right for one callee puts the style into the value type of another: `office:value-type="ce1"` is written and no reader accepts the
    cell.  Rule: wherever a function passes one of its own parameters named cell_type / value_type / currency / style / text / formula
    *positionally* to a function of the package, every function of that name binds it to a parameter of the same name.
    """
    repo = ctx.repo
    ctx.rule("R06j", "value options (cell_type, currency, style …) passed positionally land on the parameter of the same name", floor=5)
    from ..registry import build_registry
    reg = build_registry(repo)
    byname: dict[str, list[FuncInfo]] = {}
    for g in repo.all_funcs():
        if g.kind not in ("getter", "setter", "nested"):
            byname.setdefault(g.name, []).append(g)
    n = 0
    for f in repo.all_funcs():
        own = {a.arg for a in f.all_params()} & _VALUE_OPTIONS
        if not own:
            continue
        for c in walk_no_nested(f.node):
            if not (isinstance(c, ast.Call) and c.args) or any(isinstance(a, ast.Starred) for a in c.args):
                continue
            cands = byname.get(call_name(c), [])
            if not cands:
                continue
            method = isinstance(c.func, ast.Attribute)
            # the receiver's class, when a local is bound once from a call whose candidates all declare the class they return
            if method and isinstance(c.func.value, ast.Name) and c.func.value.id != "self":
                defs = [a.value for a in walk_no_nested(f.node) if isinstance(a, ast.Assign) and any(isinstance(t, ast.Name) and t.id == c.func.value.id for t in a.targets)]
                if len(defs) == 1 and isinstance(defs[0], ast.Call):
                    makers = byname.get(call_name(defs[0]), [])
                    classes = set()
                    for m_ in makers:
                        if m_.node.returns is not None:
                            classes |= {x.id for x in ast.walk(m_.node.returns) if isinstance(x, ast.Name) and repo.find_class(x.id) is not None}
                    narrowed = [k.lookup(call_name(c)) for k in (repo.find_class(n_) for n_ in sorted(classes)) if k.lookup(call_name(c)) is not None]
                    if not narrowed:
                        # the annotation says Element: the tag the getter queries names the registered class
                        import re as _re
                        tags = set()
                        for m_ in makers:
                            for k_ in ast.walk(m_.node):
                                if isinstance(k_, ast.Constant) and isinstance(k_.value, str):
                                    mt = _re.fullmatch(r"(?:descendant::|//)?([a-z]+:[a-z-]+)", k_.value)
                                    if mt:
                                        tags.add(mt.group(1))
                        ks = {reg.tag2cls[t_].name: reg.tag2cls[t_] for t_ in tags if t_ in reg.tag2cls}
                        narrowed = [k.lookup(call_name(c)) for k in ks.values() if k.lookup(call_name(c)) is not None]
                    if narrowed:
                        cands = narrowed
            elif method and isinstance(c.func.value, ast.Name) and c.func.value.id == "self" and f.cls is not None and f.cls.lookup(call_name(c)) is not None:
                cands = [f.cls.lookup(call_name(c))]
            for i, a in enumerate(c.args):
                if not (isinstance(a, ast.Name) and a.id in own):
                    continue
                wrong = []
                for g in cands:
                    ps = [x.arg for x in g.node.args.posonlyargs + g.node.args.args]
                    if method and ps and ps[0] in ("self", "cls"):
                        ps = ps[1:]
                    if a.id in ps and (i >= len(ps) or ps[i] != a.id):
                        wrong.append((g, ps[i] if i < len(ps) else "?"))
                relevant = any(a.id in [x.arg for x in g.node.args.posonlyargs + g.node.args.args] for g in cands) or wrong
                if not relevant:
                    continue
                n += 1
                bad = bool(wrong) and len(wrong) == len(cands)
                ctx.instance("R06j", f"{f.file}:{f.ident}", f"{norm(c, 40)}: `{a.id}` at position {i}", ok=not bad, nontrivial=True, line=c.lineno)
                if bad:
                    g, other = wrong[0]
                    ctx.report("R06j", f, c, f"{call_name(c)}(… {a.id} @ {i})",
                               f"{f.ident} passes its `{a.id}` as positional argument {i} of `{call_name(c)}`, where {g.ident} expects `{other}`: the options of the typed value are crossed "
                               f"(a style name written as the value type, a currency as the style …) and the cell does not read back")
    if n < 5:
        raise AnalysisError(f"R06j: only {n} positional hand-over(s) of value options found")


def r06k(ctx):
    """A stored value is not traded for a default because it tests false.

    `False`, `0`, `Decimal("0.0")`, `""` and `timedelta(0)` are values like any other; `stored or default` replaces each of them by the
    default.  On the typed-value path that means a field whose stored value is false/zero/empty is rebuilt without any value attribute,
    and reads back as None.  Today the modules that read and write typed values (cell, element_typed, variable, meta) use `or` only inside
    conditions.  Rule (expected count 0 beyond conditions): in those modules no `a or b` is used *as a value* (assigned, passed, returned)
    when `a` is read from a mapping or an accessor (`x.get(…)`, `get_value(…)`, `get_attribute…(…)`, a subscript).
    """
    repo = ctx.repo
    ctx.rule("R06k", "on the typed-value path no stored value is replaced by a default through `or` (false, 0 and the empty string are values)", floor=100)
    from ..core import parent as _parent
    for f in repo.all_funcs():
        if not f.file.endswith(("/cell.py", "/element_typed.py", "/variable.py", "/meta.py")):
            continue
        bad = []
        for b in walk_no_nested(f.node):
            if not (isinstance(b, ast.BoolOp) and isinstance(b.op, ast.Or)):
                continue
            par = _parent(b)
            if isinstance(par, (ast.If, ast.While, ast.IfExp)) and par.test is b or isinstance(par, (ast.BoolOp, ast.UnaryOp, ast.Assert)):
                continue
            left = b.values[0]
            read = isinstance(left, ast.Subscript) or (isinstance(left, ast.Call) and (call_name(left) in ("get", "pop") or call_name(left).startswith(("get_", "_get"))))
            if read:
                bad.append(b)
        ctx.instance("R06k", f"{f.file}:{f.ident}", "no `stored or default`", ok=not bad, nontrivial=bool(bad), line=f.node.lineno)
        for b in bad[:1]:
            ctx.report("R06k", f, b, norm(b, 50),
                       f"{f.ident} takes `{norm(b.values[0], 30)}` only if it tests true (`{norm(b, 50)}`): a stored False, 0, 0.0, empty string or zero duration is replaced by the default — "
                       f"the element is written without that value and reads back as None (or as the caller's default)")


def run(ctx):
    r06a(ctx)
    r06b(ctx)
    r06c(ctx)
    r06d(ctx)
    r06e(ctx)
    r06f(ctx)
    r06g(ctx)
    r06h(ctx)
    r06i(ctx)
    r06j(ctx)
    r06k(ctx)
    # a typed string lives in an attribute value: serialising the element must not take anything out of it (rule shared with C12)
    from ..registry import build_registry
    from .c12 import r12o
    r12o(ctx, build_registry(ctx.repo))
    # the lexical forms are produced by the codecs: their exactness is a necessary condition of this property too (rules shared with C18)
    from .c18 import r18a, r18b, r18d
    r18a(ctx)
    r18b(ctx)
    r18d(ctx)
    # a typed value is decoded from the XML on every read: a decoded pair kept on the wrapper outlives the property setters, which write the attributes directly (rule shared with C14)
    from .c14 import r14i
    r14i(ctx)
    from .round12 import r06l
    r06l(ctx)


from ..selftest import Seed, unparse_seed  # noqa: E402

_ET = "src/odfdo/element_typed.py"
SEEDS = [
    Seed("UserFieldDecl.set_value keeps the declared type", "fault", "src/odfdo/variable.py",
         "        self.clear()\n        self.set_value_and_type(value=value)\n        self.set_attribute(\"text:name\", name)",
         "        old = self.get_attribute_string(\"office:value-type\")\n        self.clear()\n        self.set_value_and_type(value=value, value_type=old)\n        self.set_attribute(\"text:name\", name)", "R06l"),
    Seed("UserFieldDecl.set_value names the deduced type explicitly", "neutral", "src/odfdo/variable.py",
         "        self.clear()\n        self.set_value_and_type(value=value)\n        self.set_attribute(\"text:name\", name)",
         "        self.clear()\n        self.set_value_and_type(value=value, value_type=None)\n        self.set_attribute(\"text:name\", name)"),
    Seed("UserDefined takes the stored value only if it tests true", "fault", "src/odfdo/variable.py",
         "                    value = content.get(\"value\", None)\n", "                    value = content.get(\"value\") or value\n", "R06k"),
    Seed("NamedRange.set_value hands its options over in Row.set_value's order", "fault", "src/odfdo/table.py",
         "        table.set_value(  # type: ignore\n            coord=self.start,\n            value=value,\n            cell_type=cell_type,\n            currency=currency,\n            style=style,\n        )",
         "        table.set_value(self.start, value, style, cell_type, currency)  # type: ignore", "R06j"),
    Seed("NamedRange.set_value hands its options over positionally in Table.set_value's order", "neutral", "src/odfdo/table.py",
         "        table.set_value(  # type: ignore\n            coord=self.start,\n            value=value,\n            cell_type=cell_type,\n            currency=currency,\n            style=style,\n        )",
         "        table.set_value(self.start, value, cell_type, currency, style)  # type: ignore"),
    Seed("VarSet.set_value keeps the numeric type of the field for any int", "fault", "src/odfdo/variable.py",
         "        display = self.get_attribute(\"text:display\")\n        self.clear()\n        text = self.set_value_and_type(value=value)",
         "        display = self.get_attribute(\"text:display\")\n        kept = self.get_attribute_string(\"office:value-type\") if isinstance(value, (int, float)) else None\n        self.clear()\n        text = self.set_value_and_type(value=value, value_type=kept)", "R06i"),
    Seed("VarSet.set_value keeps the numeric type of the field for numbers that are not booleans", "neutral", "src/odfdo/variable.py",
         "        display = self.get_attribute(\"text:display\")\n        self.clear()\n        text = self.set_value_and_type(value=value)",
         "        display = self.get_attribute(\"text:display\")\n        kept = None\n        if isinstance(value, bool):\n            pass\n        elif isinstance(value, (int, float)):\n            kept = None\n        self.clear()\n        text = self.set_value_and_type(value=value)"),
    Seed("Cell.datetime setter writes the short form at midnight", "fault", "src/odfdo/cell.py", "        dvalue = DateTime.encode(value)\n",
         "        if value.hour or value.minute or value.second or value.microsecond:\n            dvalue = DateTime.encode(value)\n        else:\n            dvalue = Date.encode(value)\n", "R06h"),
    Seed("metadata reader treats empty text as no value", "fault", "src/odfdo/meta.py",
         "        text = element.text\n        # Interpretation\n", "        text = element.text\n        if not text:\n            return (None, value_type, text)\n        # Interpretation\n", "R06g"),
    Seed("metadata reader guards against a missing text node with is None", "neutral", "src/odfdo/meta.py",
         "        text = element.text\n        # Interpretation\n", "        text = element.text\n        if text is None:\n            text = \"\"\n        # Interpretation\n"),
    Seed("bulk metadata setter returns when the new dict equals the stored one", "fault", "src/odfdo/meta.py",
         "        self.clear_user_defined_metadata()\n        for key, val in metadata.items():", "        if metadata == self.get_user_defined_metadata():\n            return\n        self.clear_user_defined_metadata()\n        for key, val in metadata.items():", "R06e"),
    Seed("bulk metadata setter returns for an empty dict after clearing", "neutral", "src/odfdo/meta.py",
         "        self.clear_user_defined_metadata()\n        for key, val in metadata.items():", "        self.clear_user_defined_metadata()\n        if not metadata:\n            return\n        for key, val in metadata.items():"),
    Seed("typed reader normalises the Decimal it returns", "fault", "src/odfdo/element_typed.py", "            value = Decimal(read_number)\n", "            value = Decimal(read_number).normalize()\n", "R06f"),
    Seed("Cell.value rounds to 12 places", "fault", "src/odfdo/cell.py", '            value_decimal = Decimal(str(self.get_attribute_string("office:value")))\n', '            value_decimal = round(Decimal(str(self.get_attribute_string("office:value"))), 12)\n', "R06f"),
    Seed("typed reader names the text first", "neutral", "src/odfdo/element_typed.py", "            value = Decimal(read_number)\n", "            text_number = str(read_number)\n            value = Decimal(text_number)\n"),
    Seed("small floats written with a fixed-precision format", "fault", _ET, "            value = str(value)\n        elif isinstance(value, datetime):",
         "            value = f\"{value:f}\" if isinstance(value, float) else str(value)\n        elif isinstance(value, datetime):", "R06f"),
    Seed("Cell.int setter converts through a float", "fault", "src/odfdo/cell.py", "            value_int = int(value)  # type:ignore", "            value_int = int(float(value))  # type:ignore", "R06f"),
    Seed("Row.set_values merges neighbours that compare equal in Python", "fault", "src/odfdo/row.py", '            cells = [\n                Cell(value, style=style, cell_type=cell_type, currency=currency)\n                for value in values\n            ]\n',
         """            cells = []
            for idx, value in enumerate(values):
                if cells and value == values[idx - 1]:
                    cells[-1]._set_repeated((cells[-1].repeated or 1) + 1)
                    continue
                cells.append(Cell(value, style=style, cell_type=cell_type, currency=currency))
""", "R06e"),
    Seed("Row.set_values filters falsy values", "fault", "src/odfdo/row.py", '            cells = [\n                Cell(value, style=style, cell_type=cell_type, currency=currency)\n                for value in values\n            ]\n',
         """            cells = [
                Cell(value, style=style, cell_type=cell_type, currency=currency)
                for value in values if value
            ]
""", "R06e"),
    Seed("Table.set_column_values encodes falsy values as empty cells", "fault", "src/odfdo/table.py",
         "            Cell(value, cell_type=cell_type, currency=currency, style=style)\n            for value in values",
         "            Cell(value, cell_type=cell_type, currency=currency, style=style) if value else Cell()\n            for value in values", "R06e"),
    Seed("Row.set_values builds its cells in an explicit loop", "neutral", "src/odfdo/row.py", '            cells = [\n                Cell(value, style=style, cell_type=cell_type, currency=currency)\n                for value in values\n            ]\n',
         """            cells = []
            for value in values:
                cell = Cell(value, style=style, cell_type=cell_type, currency=currency)
                cells.append(cell)
"""),
    Seed("meta: date arm before datetime arm", "fault", "src/odfdo/meta.py",
         '''        elif isinstance(value, datetime):
            value_type = "date"
            value = str(DateTime.encode(value))
        elif isinstance(value, dtdate):
            value_type = "date"
            value = str(Date.encode(value))
''', '''        elif isinstance(value, dtdate):
            value_type = "date"
            value = str(Date.encode(value))
        elif isinstance(value, datetime):
            value_type = "date"
            value = str(DateTime.encode(value))
''', "R06a"),
    Seed("element_typed: int arm before bool arm", "fault", _ET,
         "        if isinstance(value, bool):\n            if value_type is None:\n                value_type = \"boolean\"",
         "        if isinstance(value, int):\n            value_type = value_type or \"float\"\n            text = text or str(value)\n            value = str(value)\n        elif isinstance(value, bool):\n            if value_type is None:\n                value_type = \"boolean\"", "R06a"),
    Seed("cell.value setter: date before datetime", "fault", "src/odfdo/cell.py",
         "        elif isinstance(value, datetime):\n            self.datetime = value\n        elif isinstance(value, date):\n            self.date = value",
         "        elif isinstance(value, date):\n            self.date = value\n        elif isinstance(value, datetime):\n            self.datetime = value", "R06a"),
    Seed("writer stores boolean into office:value", "fault", _ET,
         'self.set_attribute("office:boolean-value", value)', 'self.set_attribute("office:value", value)', "R06b"),
    Seed("reader reads date in the time arm", "fault", _ET,
         'read_value = self.get_attribute("office:time-value")', 'read_value = self.get_attribute("office:date-value")', "R06b"),
    Seed("reader drops the T split", "fault", _ET,
         '            if "T" in read_attribute:\n                return (DateTime.decode(read_attribute), value_type)\n',
         '', "R06b"),
    Seed("Cell.value decodes time with DateTime", "fault", "src/odfdo/cell.py",
         'return Duration.decode(str(self.get_attribute_string("office:time-value")))',
         'return DateTime.decode(str(self.get_attribute_string("office:time-value")))', "R06b"),
    Seed("meta reader decodes time with Date", "fault", "src/odfdo/meta.py",
         "return (Duration.decode(text), value_type, text)", "return (Date.decode(text), value_type, text)", "R06b"),
    Seed("meta stores timedelta as string", "fault", "src/odfdo/meta.py",
         '            value_type = "time"\n            value = str(Duration.encode(value))',
         '            value_type = "string"\n            value = str(Duration.encode(value))', "R06c"),
    Seed("Cell.duration setter writes value-type date", "fault", "src/odfdo/cell.py",
         'self.set_attribute("office:value-type", "time")', 'self.set_attribute("office:value-type", "date")', "R06c"),
    Seed("date-value attribute no longer cleared", "fault", _ET,
         '            "office:date-value",\n            "office:string-value",', '            "office:string-value",', "R06b"),
    Seed("typed reader goes through float", "fault", _ET, "            value = Decimal(read_number)\n", "            value = Decimal(str(float(read_number)))\n", "R06b"),
    Seed("Cell.value reads numbers as float", "fault", "src/odfdo/cell.py",
         'value_decimal = Decimal(str(self.get_attribute_string("office:value")))', 'value_decimal = Decimal(float(str(self.get_attribute_string("office:value"))))', "R06b"),
    Seed("numbers written with repr of float", "fault", _ET, "            if text is None:\n                text = str(value)\n            value = str(value)", "            if text is None:\n                text = str(value)\n            value = str(float(value))", "R06b"),
    Seed("meta value type written only for new entries", "fault", "src/odfdo/meta.py",
         "            self.get_meta_body().append(metadata)\n        metadata.set_attribute(\"meta:value-type\", value_type)\n",
         "            metadata.set_attribute(\"meta:value-type\", value_type)\n            self.get_meta_body().append(metadata)\n", "R06d"),
    Seed("Cell.duration setter forgets the type", "fault", "src/odfdo/cell.py",
         '        self.clear()\n        self.set_attribute("office:value-type", "time")\n', '        self.clear()\n', "R06"),
    unparse_seed(_ET), unparse_seed("src/odfdo/meta.py"), unparse_seed("src/odfdo/cell.py"),
    Seed("reader rewritten with elif chain", "neutral", _ET,
         '        if value_type == "string":\n            value = self.get_attribute("office:string-value")',
         '        elif value_type == "string":\n            value = self.get_attribute("office:string-value")'),
]
