"""C15 — reading, searching and exporting never change the document.

R15a  effect-free entry points: no XML / container-part mutation is reachable from any read-only entry point
      (interprocedural effect analysis EFF, flag-constant context sensitivity, receiver freshness)
R15b  module state used by the Markdown export is reset on every normal path
R15c  no report shares per-call state (nested-mutable module/class constants leave a function only through deepcopy; no mutable default changed or handed on)
"""

from __future__ import annotations

import ast
import re

from ..core import AnalysisError, FuncInfo, call_name, norm, walk_no_nested
from ..eff import Eff
from ..paths import cfg_of, node_of

EXPLANATION = (
    "Interprocedural XML-mutation effect analysis over all ~1070 functions of the package: bottom-up summaries "
    "'may write into the tree (or container parts) of the receiver / of argument i', primitives being lxml writes "
    "(.text/.tail/.tag =, .set, attrib store/delete, append/insert/remove/replace/extend/clear/addnext) and writes "
    "to Container.__parts outside the lazy loaders, on values that are not fresh (deepcopy, fromstring, .clone, "
    "constructors, from_tag(<str>)). Kinds are inferred from annotations and idioms so that list.append / str.replace "
    "/ dict.update are not mistaken for element methods; a call on a receiver of unknown kind with an ambiguous name is "
    "counted as unresolved and never reported. Every read-only entry point (enumerated by naming rule from the "
    "current source) is analysed under its default flags; findings are keyed by the mutation site with one entry "
    "path. Byte-for-byte equality under lxml's own lazy behaviours is trusted."
)
ASSUMPTIONS = [
    "lxml read accessors (get, xpath, iteration, tostring) do not modify the tree",
    "Python-level caches (_indexes, position maps, parsed-part caches, x/y stamps, MD_GLOBAL) are not document content",
    "frozen exceptions: Element.get_variable_decls / get_user_field_decls (documented get-or-create), Container.get_part (lazy load)",
]

READ_ONLY = re.compile(r"^(get_|is_|as_|to_|search|match$|text_at$|serialize$|pretty_serialize$|show_|iter_values$|traverse|__str__$|__repr__$|"
                       r"get_formatted_text$|get_formated_meta$|to_markdown$|to_csv$|minimized_width$|elements_repeated_sequence$|index$|xpath$|"
                       r"_md_|_markdown_export$|_get_formatted_text)")
EXCEPTIONS = {
    "Element.get_variable_decls": "documented get-or-create accessor ('Created if not found')",
    "Element.get_user_field_decls": "documented get-or-create accessor ('Created if not found')",
    "Container.get_part": "lazy load into the part table is not a change of content",
    "Container.get_parts": "listing parts",
}


def entry_points(ctx, eff: Eff) -> list[tuple[FuncInfo, dict]]:
    repo = ctx.repo
    out = []
    classes = []
    for c in repo.all_classes():
        k = eff.class_kind(c)
        if k in ("ELEM", "PART", "CONT", "DOC") or c.name.startswith("MD"):
            classes.append(c)
    for c in classes:
        for name, fs in c.methods.items():
            for f in fs:
                if f.kind in ("setter", "deleter", "nested"):
                    continue
                is_ro = f.kind == "getter" or READ_ONLY.match(name)
                if not is_ro:
                    continue
                if f.kind == "getter" and name == "clone":
                    pass
                if f.ident in EXCEPTIONS:
                    continue
                consts = {}
                d = f.defaults()
                for p in eff.flags_of(f):
                    # behaviour switches (bool defaults: clone=True, …) are fixed at their documented default; a parameter that merely
                    # defaults to None (start, end, coord, …) is a value the caller provides: both ways are analysed
                    if isinstance(d.get(p), ast.Constant) and isinstance(d[p].value, bool):
                        consts[p] = d[p].value
                out.append((f, consts))
    # replace() with new=None only counts
    rep = repo.func("Element.replace")
    out.append((rep, {"new": None}))
    # wrapping an existing node is read-only: every traversal builds wrappers through from_tag -> Class(tag_or_elem=node),
    # i.e. runs the class's __init__ with _do_init False
    for c in classes:
        if eff.class_kind(c) != "ELEM":
            continue
        for f in c.methods.get("__init__", []):
            if "__do_init__" in eff.flags_of(f) or True:
                out.append((f, {"__do_init__": False}))
    return out


def r15a(ctx):
    repo = ctx.repo
    ctx.rule("R15a", "no XML or container-part mutation is reachable from a read-only entry point", floor=300)
    def ro(g: FuncInfo) -> bool:
        return g.kind == "getter" or bool(READ_ONLY.match(g.name)) or g.kind == "nested" or g.name in ("__init__",)

    eff = Eff(repo, ro)
    entries = entry_points(ctx, eff)
    eff.solve(entries)
    by_site: dict = {}
    for f, consts in entries:
        s = eff.summary(f, consts)
        bad = [(atom, site, chain) for (atom, skey), (site, chain) in s.muts.items() if atom == "S" or atom.startswith("P:")]
        ctx.instance("R15a", f"{f.file}:{f.ident}", f"effect summary under {consts or 'defaults'}: {len(bad)} mutation(s) of receiver/arguments",
                     ok=not bad, nontrivial=True, line=f.node.lineno)
        for atom, site, chain in bad:
            # report at the first call on the path whose callee is not itself a read-only operation
            rep_f, rep_n, rep_l = site.func, site.node, site.what
            cul = getattr(site, "culprit", None)
            if cul is not None:
                rep_f, rep_n, rep_l = cul
            k = (rep_f.module.relpath, rep_f.ident, norm(rep_n, 80))
            if k not in by_site:
                by_site[k] = (rep_f, rep_n, rep_l, site, [])
            by_site[k][4].append((f, chain, atom))
    for k, (rf, rn, rl, site, users) in sorted(by_site.items(), key=lambda x: x[0]):
        users.sort(key=lambda u: len(u[1]))
        f0, chain, atom = users[0]
        path = [f"{f0.ident} (read-only entry point)"] + [f"-> {c[0].ident}:{getattr(c[1], 'lineno', 0)} {c[2]}" for c in chain] + \
               [f"-> {site.func.ident}:{getattr(site.node, 'lineno', 0)} {site.what}"]
        ctx.report("R15a", rf, rn, f"{rl}: {norm(rn, 60)}",
                   f"this call/write changes a live XML tree or the part table and is reachable from {len(users)} read-only entry point(s), "
                   f"e.g. {f0.ident}: reading, searching or exporting changes the document", path=path)
    ctx.extra["eff"] = {"summaries": len(eff.summaries), "rounds": eff.rounds, "resolved_calls": eff.n_calls_resolved,
                        "unresolved_ambiguous_calls": len(eff.unresolved), "entry_points": len(entries)}
    ctx.unresolved.extend(sorted(eff.unresolved)[:60])
    for k, why in EXCEPTIONS.items():
        ctx.note(f"R15a frozen exception {k}: {why}")
    return eff


def r15b(ctx):
    repo = ctx.repo
    ctx.rule("R15b", "the Markdown export resets its module-level state on every normal path", floor=1)
    m = repo.module("mixin_md")
    found = 0
    for f in m.all_funcs:
        sets = [n for n in walk_no_nested(f.node) if isinstance(n, ast.Call) and call_name(n) in ("_set_global", "_init_global", "_restore_global")]
        if not sets or f.kind == "nested":
            continue
        inits = [n for n in sets if call_name(n) in ("_init_global",) or (call_name(n) == "_set_global" and n.args and not (isinstance(n.args[0], ast.Constant) and n.args[0].value is None))]
        resets = [n for n in sets if call_name(n) in ("_restore_global",) or (call_name(n) == "_set_global" and n.args and isinstance(n.args[0], ast.Constant) and n.args[0].value is None)]
        saves = [n for n in walk_no_nested(f.node) if isinstance(n, ast.Call) and call_name(n) == "_copy_global"]
        if not inits and not saves:
            continue
        found += 1
        cfg = cfg_of(f)
        start = (inits or saves)[0]
        rn = [node_of(cfg, r) for r in resets]
        ok = bool(rn) and cfg.path_avoiding(node_of(cfg, start), cfg.exit, rn, follow_exc=False) is None
        ctx.instance("R15b", f"{f.file}:{f.ident}", f"{norm(start, 40)} … reset on every normal path", ok=ok, nontrivial=True, line=start.lineno)
        if not ok:
            ctx.report("R15b", f, start, f"{norm(start, 40)} without reset",
                       "module-level export state is set here and a normal path returns without resetting it: a second export gives a different answer")
    if not found:
        ctx.note("R15b: no set/reset pair of module state found in mixin_md (nothing to pair)")
        ctx.rules["R15b"].floor = 0


_MUT = (ast.List, ast.Dict, ast.Set, ast.ListComp, ast.DictComp, ast.SetComp)
_PURE = {"len", "sorted", "iter", "isinstance", "bool", "str", "repr", "print", "enumerate", "zip", "min", "max", "sum", "any", "all", "tuple", "frozenset", "deepcopy", "id", "type", "format"}
_SHALLOW = {"copy", "dict", "list", "set"}

_FIXTURE_C = '''
DEFAULTS = {"notes": [], "level": 0}
FLAT = {"a": 1}
def bad_copy(self, context=None):
    if not context:
        context = DEFAULTS.copy()
    return render(self, context)
def bad_dict(self):
    state = dict(DEFAULTS)
    return render(self, state)
def bad_alias(self):
    return render(self, DEFAULTS)
def bad_default(self, seen=[]):
    seen.append(self)
    return len(seen)
def ok_deep(self):
    return render(self, deepcopy(DEFAULTS))
def ok_flat(self):
    return render(self, FLAT.copy())
def ok_read(self):
    return DEFAULTS["level"] + len(DEFAULTS["notes"])
def ok_local(self):
    probe = DEFAULTS.copy()
    return sorted(probe)
'''


def _nested_mutable_globals(tree: ast.Module) -> dict[str, ast.AST]:
    """module- and class-level names bound to a mutable display that holds another mutable display (or gets one stored under a key by a function of the module)."""
    out = {}
    flat = {}
    scopes = [tree.body] + [c.body for c in tree.body if isinstance(c, ast.ClassDef)]
    for body in scopes:
        for st in body:
            if isinstance(st, (ast.Assign, ast.AnnAssign)) and st.value is not None and isinstance(st.value, _MUT):
                tg = st.targets[0] if isinstance(st, ast.Assign) else st.target
                if isinstance(tg, ast.Name):
                    flat[tg.id] = st
                    if any(x is not st.value and isinstance(x, _MUT) for x in ast.walk(st.value)):
                        out[tg.id] = st
    for n in ast.walk(tree):
        if isinstance(n, ast.Assign) and isinstance(n.value, _MUT):
            for t in n.targets:
                if isinstance(t, ast.Subscript) and isinstance(t.value, ast.Name) and t.value.id in flat:
                    out[t.value.id] = flat[t.value.id]
    return out


def _shared_state_sites(tree: ast.Module, nested: dict[str, ast.AST]):
    """(function node, site node, text) where a nested-mutable global is shallow-copied or aliased and the result leaves the function
    (argument of a call, return, yield, attribute store), plus mutable default arguments that the function mutates or lets escape."""
    out = []

    def names_g(e):
        if isinstance(e, ast.Name) and e.id in nested:
            return e.id
        if isinstance(e, ast.Attribute) and e.attr in nested and isinstance(e.value, ast.Name):
            return e.attr
        return None

    def shallow(e):
        """the global a value is a shallow copy / alias of, or None"""
        g = names_g(e)
        if g:
            return g
        if isinstance(e, ast.Call):
            if isinstance(e.func, ast.Attribute) and e.func.attr == "copy" and not e.args:
                return names_g(e.func.value)
            if call_name(e) in _SHALLOW and len(e.args) == 1:
                return names_g(e.args[0])
        if isinstance(e, ast.Dict) and any(k is None and names_g(v) for k, v in zip(e.keys, e.values)):
            return next(names_g(v) for k, v in zip(e.keys, e.values) if k is None and names_g(v))
        if isinstance(e, ast.BinOp) and isinstance(e.op, ast.BitOr):
            return names_g(e.left) or names_g(e.right)
        if isinstance(e, ast.IfExp):
            return shallow(e.body) or shallow(e.orelse)
        if isinstance(e, ast.BoolOp):
            for v in e.values:
                if shallow(v):
                    return shallow(v)
        return None

    for fn in [n for n in ast.walk(tree) if isinstance(n, (ast.FunctionDef, ast.AsyncFunctionDef))]:
        tainted: dict[str, tuple[str, ast.AST]] = {}
        a = fn.args
        pos = a.posonlyargs + a.args
        for arg, d in list(zip(pos[len(pos) - len(a.defaults):], a.defaults)) + [(x, d) for x, d in zip(a.kwonlyargs, a.kw_defaults) if d is not None]:
            if isinstance(d, _MUT) or isinstance(d, ast.Call) and call_name(d) in ("list", "dict", "set") and not d.args:
                tainted[arg.arg] = (f"mutable default of parameter {arg.arg}", d)
        for st in walk_no_nested(fn):
            if isinstance(st, (ast.Assign, ast.AnnAssign)) and st.value is not None:
                g = shallow(st.value)
                if g:
                    for t in (st.targets if isinstance(st, ast.Assign) else [st.target]):
                        if isinstance(t, ast.Name):
                            tainted[t.id] = (f"shallow copy/alias of {g}", st)
                        elif isinstance(t, ast.Attribute):
                            out.append((fn, st, f"`{norm(st, 60)}` stores a shallow copy/alias of {g}"))

        def esc(e):
            g = shallow(e)
            if g:
                return f"shallow copy/alias of {g}", e
            if isinstance(e, ast.Name) and e.id in tainted:
                return tainted[e.id]
            return None

        for n in walk_no_nested(fn):
            if isinstance(n, ast.Call) and call_name(n) not in _PURE | _SHALLOW and not (isinstance(n.func, ast.Attribute) and n.func.attr in ("copy", "get", "keys", "items", "values")):
                for x in list(n.args) + [k.value for k in n.keywords]:
                    r = esc(x)
                    if r:
                        out.append((fn, n, f"`{norm(n, 60)}` receives a {r[0]}"))
                # mutation of a mutable default through a method (seen.append(x))
                if isinstance(n.func, ast.Attribute) and isinstance(n.func.value, ast.Name) and n.func.value.id in tainted and tainted[n.func.value.id][0].startswith("mutable default") \
                        and n.func.attr in ("append", "extend", "add", "update", "insert", "setdefault", "pop", "remove", "clear"):
                    out.append((fn, n, f"`{norm(n, 60)}` changes the {tainted[n.func.value.id][0]}"))
            elif isinstance(n, (ast.Return, ast.Yield)) and n.value is not None:
                r = esc(n.value)
                if r:
                    out.append((fn, n, f"`{norm(n, 60)}` hands out a {r[0]}"))
            elif isinstance(n, ast.Assign) and isinstance(n.targets[0], ast.Subscript) and isinstance(n.targets[0].value, ast.Name) and n.targets[0].value.id in tainted \
                    and tainted[n.targets[0].value.id][0].startswith("mutable default"):
                out.append((fn, n, f"`{norm(n, 60)}` changes the {tainted[n.targets[0].value.id][0]}"))
    return out


def r15c(ctx):
    """A report starts from state of its own.

    "Calling them twice gives the same answer": the text exporters thread a context (foot-notes, end-notes, annotations, images collected so
    far) through the element tree and append to its lists.  Each top-level call builds that context afresh.  A module- or class-level
    template handed out through `.copy()`, `dict(...)`, `{**T}` or by name shares the inner lists between all calls, and a mutable default
    argument is the same object on every call: the second export then repeats the notes of the first.  Rule (expected count 0; a fixture
    with four violating and four clean functions is evaluated on every run): a module/class-level mutable that holds mutable values
    leaves a function only through deepcopy; no mutable default argument is changed or handed on.
    """
    repo = ctx.repo
    ctx.rule("R15c", "no report shares per-call state: nested-mutable module/class constants leave a function only through deepcopy; no mutable default argument is changed or handed on", floor=100)
    tree = ast.parse(_FIXTURE_C)
    got = sorted({fn.name for fn, _, _ in _shared_state_sites(tree, _nested_mutable_globals(tree))})
    if got != ["bad_alias", "bad_copy", "bad_default", "bad_dict"]:
        raise AnalysisError(f"R15c fixture: shared-state detector broken: {got}")
    nested_all: dict[str, str] = {}
    for m in repo.modules.values():
        for k in _nested_mutable_globals(m.tree):
            nested_all[k] = m.relpath
    ctx.extra["nested_mutable_constants"] = nested_all
    for m in repo.modules.values():
        nested = {k: None for k in nested_all}
        sites = _shared_state_sites(m.tree, nested) if True else []
        bad_by_fn: dict[int, list] = {}
        for fn, n, why in sites:
            bad_by_fn.setdefault(id(fn), []).append((fn, n, why))
        for f in m.all_funcs:
            bad = bad_by_fn.get(id(f.node), [])
            ctx.instance("R15c", f"{f.file}:{f.ident}", "no shared per-call state handed on", ok=not bad, nontrivial=bool(bad), line=f.node.lineno)
            for fn, n, why in bad[:2]:
                ctx.report("R15c", f, n, why.split("`")[1] if "`" in why else why,
                           f"{f.ident}: {why}; the inner lists/dicts of that object are the same objects on every call, so what one export or search "
                           f"collects in them (notes, images, counters) is still there on the next call: the same report gives a different answer the second time")


def run(ctx):
    r15a(ctx)
    r15b(ctx)
    r15c(ctx)


from ..selftest import Seed, unparse_seed  # noqa: E402

_EL = "src/odfdo/element.py"
_T = "src/odfdo/table.py"
_MD = "src/odfdo/mixin_md.py"
SEEDS = [
    Seed("get_deleted(no_header) re-parents the live children of the heading again", "fault", "src/odfdo/tracked_changes.py",
         "                        para.append(child.clone)", "                        para.append(child)", "R15a"),
    Seed("a getter collects live children under a scratch element", "fault", _EL,
         "    def text_recursive(self) -> str:\n        return self.inner_text + (self.tail or \"\")",
         "    def text_recursive(self) -> str:\n        probe = Element.from_tag(\"text:span\")\n        for child in self.children:\n            probe.append(child)\n        return self.inner_text + (self.tail or \"\")", "R15a"),
    Seed("a getter collects copies of the children under a scratch element", "neutral", _EL,
         "    def text_recursive(self) -> str:\n        return self.inner_text + (self.tail or \"\")",
         "    def text_recursive(self) -> str:\n        probe = Element.from_tag(\"text:span\")\n        for child in self.children:\n            probe.append(child.clone)\n        return self.inner_text + (self.tail or \"\")"),
    Seed("ranged column traversal clears the repeat of the live column group", "fault", _T, '                repeated = juska - before\n                before = juska\n                for _i in range(repeated or 1):\n                    if x <= end:\n                        copy = column.clone\n                        copy.x = x\n                        if repeated > 1 or (x == start and start > 0):', '                repeated = juska - before\n                before = juska\n                if x == start and start > 0:\n                    column.repeated = None\n                for _i in range(repeated or 1):\n                    if x <= end:\n                        copy = column.clone\n                        copy.x = x\n                        if repeated > 1:', "R15a"),
    Seed("wrapping a named range rewrites its attributes", "fault", _T,
         "        crange = crange.replace(\".\", \"\")\n        self._set_range(crange)", "        crange = crange.replace(\".\", \"\")\n        self.set_range(crange)", "R15a"),
    Seed("wrapping a header normalises its level", "fault", "src/odfdo/header.py",
         "        super().__init__(**kwargs)\n        if self._do_init:\n            self.level = int(level)", "        super().__init__(**kwargs)\n        self.level = int(level)\n        if self._do_init:", "R15a"),
    Seed("Markdown export trims the live table again", "fault", _MD,
         "        table = self.clone\n        table.optimize_width()", "        table = self\n        table.optimize_width()", "R15a"),
    Seed("pretty serialisation indents the live tree", "fault", "src/odfdo/xmlpart.py",
         "        root = deepcopy(tree.getroot())\n        return pretty_indent(root)", "        root = tree.getroot()\n        return pretty_indent(root)", "R15a"),
    Seed("RST export strips the live table", "fault", _T,
         "        # Strip the table => We must clone\n        table = self.clone\n        table.rstrip(aggressive=True)  # type: ignore",
         "        table = self\n        table.rstrip(aggressive=True)  # type: ignore", "R15a"),
    Seed("text_recursive getter clears the tail", "fault", _EL,
         "    def text_recursive(self) -> str:\n        return self.inner_text + (self.tail or \"\")",
         "    def text_recursive(self) -> str:\n        tail = self.tail or \"\"\n        self.__element.tail = None\n        return self.inner_text + tail", "R15a"),
    Seed("search() normalises the paragraph first", "fault", _EL,
         "        match = re.search(pattern, self.text_recursive)\n        if match is None:\n            return None\n        return match.start()\n\n    def search_first(", "        self.text = self.text.strip()\n        match = re.search(pattern, self.text_recursive)\n        if match is None:\n            return None\n        return match.start()\n\n    def search_first(", "R15a"),
    Seed("get_paragraphs drops empty paragraphs as it goes", "fault", _EL,
         "        return self._filtered_elements(\n            \"descendant::text:p\", text_style=style, content=content\n        )\n\n    @property\n    def paragraphs(",
         "        found = self._filtered_elements(\n            \"descendant::text:p\", text_style=style, content=content\n        )\n        for para in found:\n            if not para.text_recursive:\n                para.delete()\n        return found\n\n    @property\n    def paragraphs(", "R15a"),
    Seed("Cell.is_empty resets the style of empty cells", "fault", "src/odfdo/cell.py",
         "        if not aggressive and self.style is not None:  # noqa: SIM103\n            return False\n        return True",
         "        if not aggressive and self.style is not None:  # noqa: SIM103\n            return False\n        self.set_attribute(\"table:style-name\", None)\n        return True", "R15a"),
    Seed("replace(new=None) rewrites text while counting", "fault", _EL,
         "            if new is None:\n                count += len(cpattern.findall(str(text)))", "            if new is None:\n                count += len(cpattern.findall(str(text)))\n                text.parent.tail = str(text)", "R15a"),
    Seed("Document.get_style creates the style when missing", "fault", "src/odfdo/document.py",
         "        # 2. styles.xml\n        return self.styles.get_style(\n            family,\n            name_or_element=name_or_element,\n            display_name=display_name,\n        )",
         "        # 2. styles.xml\n        found = self.styles.get_style(\n            family,\n            name_or_element=name_or_element,\n            display_name=display_name,\n        )\n        if found is None and isinstance(name_or_element, str):\n            self.insert_style(Style(family, name=name_or_element))\n        return found", "R15a"),
    Seed("to_csv strips the table before exporting", "fault", _T,
         "        out = StringIO(newline=\"\")\n        csv_writer = csv.writer(out, dialect=dialect)", "        self.rstrip()\n        out = StringIO(newline=\"\")\n        csv_writer = csv.writer(out, dialect=dialect)", "R15a"),
    Seed("get_formatted_text of a table deletes covered cells through a helper", "fault", _T,
         "    def _get_formatted_text_normal(self, context: dict | None) -> str:\n        result = []\n        for row in self.traverse():",
         "    def _get_formatted_text_normal(self, context: dict | None) -> str:\n        result = []\n        for live in self._get_rows():\n            live.rstrip()\n        for row in self.traverse():", "R15a"),
    Seed("Meta.as_dict stamps the generator", "fault", "src/odfdo/meta.py",
         "    def as_dict(self, full: bool = False) -> dict[str, Any]:", "    def as_dict(self, full: bool = False) -> dict[str, Any]:\n        self.set_generator_default()", "R15a"),
    Seed("formatted-text context comes from a shallow copy of a module template", "fault", "src/odfdo/paragraph_base.py",
         'def _get_formatted_text(\n    element: Element,', 'DEFAULT_CONTEXT: dict[str, Any] = {\n    "document": None,\n    "footnotes": [],\n    "endnotes": [],\n    "annotations": [],\n    "rst_mode": False,\n    "img_counter": 0,\n    "images": [],\n    "no_img_level": 0,\n}\n\n\ndef _get_formatted_text(\n    element: Element,', "R15c",
         edits=[("src/odfdo/paragraph_base.py", '        if not context:\n            context = {\n                "document": None,\n                "footnotes": [],\n                "endnotes": [],\n                "annotations": [],\n                "rst_mode": False,\n                "img_counter": 0,\n                "images": [],\n                "no_img_level": 0,\n            }\n        content = _get_formatted_text(self, context, with_text=True)', '        if not context:\n            context = DEFAULT_CONTEXT.copy()\n        content = _get_formatted_text(self, context, with_text=True)')]),
    Seed("formatted-text context comes from a deep copy of a module template", "neutral", "src/odfdo/paragraph_base.py",
         'def _get_formatted_text(\n    element: Element,', 'DEFAULT_CONTEXT: dict[str, Any] = {\n    "document": None,\n    "footnotes": [],\n    "endnotes": [],\n    "annotations": [],\n    "rst_mode": False,\n    "img_counter": 0,\n    "images": [],\n    "no_img_level": 0,\n}\n\n\ndef _get_formatted_text(\n    element: Element,',
         edits=[("src/odfdo/paragraph_base.py", 'from typing import Any\n', 'from copy import deepcopy\nfrom typing import Any\n'), ("src/odfdo/paragraph_base.py", '        if not context:\n            context = {\n                "document": None,\n                "footnotes": [],\n                "endnotes": [],\n                "annotations": [],\n                "rst_mode": False,\n                "img_counter": 0,\n                "images": [],\n                "no_img_level": 0,\n            }\n        content = _get_formatted_text(self, context, with_text=True)', '        if not context:\n            context = deepcopy(DEFAULT_CONTEXT)\n        content = _get_formatted_text(self, context, with_text=True)')]),
    Seed("Header context is a mutable default argument", "fault", "src/odfdo/header.py",
         "        context: dict | None = None,\n        simple: bool = False,\n    ) -> str:\n        if not context:", '        context: dict | None = {"document": None, "footnotes": [], "endnotes": [], "annotations": [], "rst_mode": False, "img_counter": 0, "images": [], "no_img_level": 0},\n        simple: bool = False,\n    ) -> str:\n        if not context:', "R15c"),
    unparse_seed(_EL), unparse_seed(_T), unparse_seed(_MD), unparse_seed("src/odfdo/document.py"), unparse_seed("src/odfdo/paragraph.py"), unparse_seed("src/odfdo/paragraph_base.py"), unparse_seed("src/odfdo/header.py"), unparse_seed("src/odfdo/tracked_changes.py"),
    Seed("export works on an explicit deepcopy", "neutral", "src/odfdo/xmlpart.py",
         "        root = deepcopy(tree.getroot())\n        return pretty_indent(root)", "        copied = deepcopy(tree)\n        root = copied.getroot()\n        return pretty_indent(root)"),
    Seed("read-only method builds and edits a fresh element", "neutral", _EL,
         "    def text_recursive(self) -> str:\n        return self.inner_text + (self.tail or \"\")",
         "    def text_recursive(self) -> str:\n        probe = Element.from_tag(\"text:span\")\n        probe.text = self.inner_text\n        probe.tail = self.tail or \"\"\n        return probe.text + (probe.tail or \"\")"),
    Seed("read-only method edits a clone", "neutral", _EL,
         "        match = re.search(pattern, self.text_recursive)\n        if match is None:\n            return None\n        return match.start()\n\n    def search_first(", "        work = self.clone\n        work.tail = None\n        match = re.search(pattern, self.text_recursive)\n        if match is None:\n            return None\n        return match.start()\n\n    def search_first("),
]
