"""C15 — reading, searching and exporting never change the document.

R15a  effect-free entry points: no XML / container-part mutation is reachable from any read-only entry point
      (interprocedural effect analysis EFF, flag-constant context sensitivity, receiver freshness)
R15b  module state used by the Markdown export is reset on every normal path
"""

from __future__ import annotations

import ast
import re

from ..core import AnalysisError, FuncInfo, call_name, norm, walk_no_nested
from ..eff import Eff
from ..paths import cfg_of, node_of

EXPLANATION = (
    "Interprocedural XML-mutation effect analysis over all ~1070 functions of the package: bottom-up summaries "
    "'may write into the tree (or container parts) of the receiver / of argument i', primitives being lxml writes "
    "(.text/.tail/.tag =, .set, attrib store/delete, append/insert/remove/replace/extend/clear/addnext) and writes "
    "to Container.__parts outside the lazy loaders, on values that are not fresh (deepcopy, fromstring, .clone, "
    "constructors, from_tag(<str>)). Kinds are inferred from annotations and idioms so that list.append / str.replace "
    "/ dict.update are not mistaken for element methods; a call on a receiver of unknown kind with an ambiguous name is "
    "counted as unresolved and never reported. Every read-only entry point (enumerated by naming rule from the "
    "current source) is analysed under its default flags; findings are keyed by the mutation site with one entry "
    "path. Byte-for-byte equality under lxml's own lazy behaviours is trusted."
)
ASSUMPTIONS = [
    "lxml read accessors (get, xpath, iteration, tostring) do not modify the tree",
    "Python-level caches (_indexes, position maps, parsed-part caches, x/y stamps, MD_GLOBAL) are not document content",
    "frozen exceptions: Element.get_variable_decls / get_user_field_decls (documented get-or-create), Container.get_part (lazy load)",
]

READ_ONLY = re.compile(r"^(get_|is_|as_|to_|search|match$|text_at$|serialize$|pretty_serialize$|show_|iter_values$|traverse|__str__$|__repr__$|"
                       r"get_formatted_text$|get_formated_meta$|to_markdown$|to_csv$|minimized_width$|elements_repeated_sequence$|index$|xpath$|"
                       r"_md_|_markdown_export$|_get_formatted_text)")
EXCEPTIONS = {
    "Element.get_variable_decls": "documented get-or-create accessor ('Created if not found')",
    "Element.get_user_field_decls": "documented get-or-create accessor ('Created if not found')",
    "Container.get_part": "lazy load into the part table is not a change of content",
    "Container.get_parts": "listing parts",
}


def entry_points(ctx, eff: Eff) -> list[tuple[FuncInfo, dict]]:
    repo = ctx.repo
    out = []
    classes = []
    for c in repo.all_classes():
        k = eff.class_kind(c)
        if k in ("ELEM", "PART", "CONT", "DOC") or c.name.startswith("MD"):
            classes.append(c)
    for c in classes:
        for name, fs in c.methods.items():
            for f in fs:
                if f.kind in ("setter", "deleter", "nested"):
                    continue
                is_ro = f.kind == "getter" or READ_ONLY.match(name)
                if not is_ro:
                    continue
                if f.kind == "getter" and name == "clone":
                    pass
                if f.ident in EXCEPTIONS:
                    continue
                consts = {}
                d = f.defaults()
                for p in eff.flags_of(f):
                    # behaviour switches (bool defaults: clone=True, …) are fixed at their documented default; a parameter that merely
                    # defaults to None (start, end, coord, …) is a value the caller provides: both ways are analysed
                    if isinstance(d.get(p), ast.Constant) and isinstance(d[p].value, bool):
                        consts[p] = d[p].value
                out.append((f, consts))
    # replace() with new=None only counts
    rep = repo.func("Element.replace")
    out.append((rep, {"new": None}))
    # wrapping an existing node is read-only: every traversal builds wrappers through from_tag -> Class(tag_or_elem=node),
    # i.e. runs the class's __init__ with _do_init False
    for c in classes:
        if eff.class_kind(c) != "ELEM":
            continue
        for f in c.methods.get("__init__", []):
            if "__do_init__" in eff.flags_of(f) or True:
                out.append((f, {"__do_init__": False}))
    return out


def r15a(ctx):
    repo = ctx.repo
    ctx.rule("R15a", "no XML or container-part mutation is reachable from a read-only entry point", floor=300)
    def ro(g: FuncInfo) -> bool:
        return g.kind == "getter" or bool(READ_ONLY.match(g.name)) or g.kind == "nested" or g.name in ("__init__",)

    eff = Eff(repo, ro)
    entries = entry_points(ctx, eff)
    eff.solve(entries)
    by_site: dict = {}
    for f, consts in entries:
        s = eff.summary(f, consts)
        bad = [(atom, site, chain) for (atom, skey), (site, chain) in s.muts.items() if atom == "S" or atom.startswith("P:")]
        ctx.instance("R15a", f"{f.file}:{f.ident}", f"effect summary under {consts or 'defaults'}: {len(bad)} mutation(s) of receiver/arguments",
                     ok=not bad, nontrivial=True, line=f.node.lineno)
        for atom, site, chain in bad:
            # report at the first call on the path whose callee is not itself a read-only operation
            rep_f, rep_n, rep_l = site.func, site.node, site.what
            cul = getattr(site, "culprit", None)
            if cul is not None:
                rep_f, rep_n, rep_l = cul
            k = (rep_f.module.relpath, rep_f.ident, norm(rep_n, 80))
            if k not in by_site:
                by_site[k] = (rep_f, rep_n, rep_l, site, [])
            by_site[k][4].append((f, chain, atom))
    for k, (rf, rn, rl, site, users) in sorted(by_site.items(), key=lambda x: x[0]):
        users.sort(key=lambda u: len(u[1]))
        f0, chain, atom = users[0]
        path = [f"{f0.ident} (read-only entry point)"] + [f"-> {c[0].ident}:{getattr(c[1], 'lineno', 0)} {c[2]}" for c in chain] + \
               [f"-> {site.func.ident}:{getattr(site.node, 'lineno', 0)} {site.what}"]
        ctx.report("R15a", rf, rn, f"{rl}: {norm(rn, 60)}",
                   f"this call/write changes a live XML tree or the part table and is reachable from {len(users)} read-only entry point(s), "
                   f"e.g. {f0.ident}: reading, searching or exporting changes the document", path=path)
    ctx.extra["eff"] = {"summaries": len(eff.summaries), "rounds": eff.rounds, "resolved_calls": eff.n_calls_resolved,
                        "unresolved_ambiguous_calls": len(eff.unresolved), "entry_points": len(entries)}
    ctx.unresolved.extend(sorted(eff.unresolved)[:60])
    for k, why in EXCEPTIONS.items():
        ctx.note(f"R15a frozen exception {k}: {why}")
    return eff


def r15b(ctx):
    repo = ctx.repo
    ctx.rule("R15b", "the Markdown export resets its module-level state on every normal path", floor=1)
    m = repo.module("mixin_md")
    found = 0
    for f in m.all_funcs:
        sets = [n for n in walk_no_nested(f.node) if isinstance(n, ast.Call) and call_name(n) in ("_set_global", "_init_global", "_restore_global")]
        if not sets or f.kind == "nested":
            continue
        inits = [n for n in sets if call_name(n) in ("_init_global",) or (call_name(n) == "_set_global" and n.args and not (isinstance(n.args[0], ast.Constant) and n.args[0].value is None))]
        resets = [n for n in sets if call_name(n) in ("_restore_global",) or (call_name(n) == "_set_global" and n.args and isinstance(n.args[0], ast.Constant) and n.args[0].value is None)]
        saves = [n for n in walk_no_nested(f.node) if isinstance(n, ast.Call) and call_name(n) == "_copy_global"]
        if not inits and not saves:
            continue
        found += 1
        cfg = cfg_of(f)
        start = (inits or saves)[0]
        rn = [node_of(cfg, r) for r in resets]
        ok = bool(rn) and cfg.path_avoiding(node_of(cfg, start), cfg.exit, rn, follow_exc=False) is None
        ctx.instance("R15b", f"{f.file}:{f.ident}", f"{norm(start, 40)} … reset on every normal path", ok=ok, nontrivial=True, line=start.lineno)
        if not ok:
            ctx.report("R15b", f, start, f"{norm(start, 40)} without reset",
                       "module-level export state is set here and a normal path returns without resetting it: a second export gives a different answer")
    if not found:
        ctx.note("R15b: no set/reset pair of module state found in mixin_md (nothing to pair)")
        ctx.rules["R15b"].floor = 0


def run(ctx):
    r15a(ctx)
    r15b(ctx)


from ..selftest import Seed, unparse_seed  # noqa: E402

_EL = "src/odfdo/element.py"
_T = "src/odfdo/table.py"
_MD = "src/odfdo/mixin_md.py"
SEEDS = [
    Seed("ranged column traversal clears the repeat of the live column group", "fault", _T, '                repeated = juska - before\n                before = juska\n                for _i in range(repeated or 1):\n                    if x <= end:\n                        column = column.clone\n                        column.x = x\n                        if repeated > 1 or (x == start and start > 0):', '                repeated = juska - before\n                before = juska\n                if x == start and start > 0:\n                    column.repeated = None\n                for _i in range(repeated or 1):\n                    if x <= end:\n                        column = column.clone\n                        column.x = x\n                        if repeated > 1:', "R15a"),
    Seed("wrapping a named range rewrites its attributes", "fault", _T,
         "        crange = crange.replace(\".\", \"\")\n        self._set_range(crange)", "        crange = crange.replace(\".\", \"\")\n        self.set_range(crange)", "R15a"),
    Seed("wrapping a header normalises its level", "fault", "src/odfdo/header.py",
         "        super().__init__(**kwargs)\n        if self._do_init:\n            self.level = int(level)", "        super().__init__(**kwargs)\n        self.level = int(level)\n        if self._do_init:", "R15a"),
    Seed("Markdown export trims the live table again", "fault", _MD,
         "        table = self.clone\n        table.optimize_width()", "        table = self\n        table.optimize_width()", "R15a"),
    Seed("pretty serialisation indents the live tree", "fault", "src/odfdo/xmlpart.py",
         "        root = deepcopy(tree.getroot())\n        return pretty_indent(root)", "        root = tree.getroot()\n        return pretty_indent(root)", "R15a"),
    Seed("RST export strips the live table", "fault", _T,
         "        # Strip the table => We must clone\n        table = self.clone\n        table.rstrip(aggressive=True)  # type: ignore",
         "        table = self\n        table.rstrip(aggressive=True)  # type: ignore", "R15a"),
    Seed("text_recursive getter clears the tail", "fault", _EL,
         "    def text_recursive(self) -> str:\n        return self.inner_text + (self.tail or \"\")",
         "    def text_recursive(self) -> str:\n        tail = self.tail or \"\"\n        self.__element.tail = None\n        return self.inner_text + tail", "R15a"),
    Seed("search() normalises the paragraph first", "fault", _EL,
         "        match = re.search(pattern, self.text_recursive)\n        if match is None:\n            return None\n        return match.start()\n\n    def search_first(", "        self.text = self.text.strip()\n        match = re.search(pattern, self.text_recursive)\n        if match is None:\n            return None\n        return match.start()\n\n    def search_first(", "R15a"),
    Seed("get_paragraphs drops empty paragraphs as it goes", "fault", _EL,
         "        return self._filtered_elements(\n            \"descendant::text:p\", text_style=style, content=content\n        )\n\n    @property\n    def paragraphs(",
         "        found = self._filtered_elements(\n            \"descendant::text:p\", text_style=style, content=content\n        )\n        for para in found:\n            if not para.text_recursive:\n                para.delete()\n        return found\n\n    @property\n    def paragraphs(", "R15a"),
    Seed("Cell.is_empty resets the style of empty cells", "fault", "src/odfdo/cell.py",
         "        if not aggressive and self.style is not None:  # noqa: SIM103\n            return False\n        return True",
         "        if not aggressive and self.style is not None:  # noqa: SIM103\n            return False\n        self.set_attribute(\"table:style-name\", None)\n        return True", "R15a"),
    Seed("replace(new=None) rewrites text while counting", "fault", _EL,
         "            if new is None:\n                count += len(cpattern.findall(str(text)))", "            if new is None:\n                count += len(cpattern.findall(str(text)))\n                text.parent.tail = str(text)", "R15a"),
    Seed("Document.get_style creates the style when missing", "fault", "src/odfdo/document.py",
         "        # 2. styles.xml\n        return self.styles.get_style(\n            family,\n            name_or_element=name_or_element,\n            display_name=display_name,\n        )",
         "        # 2. styles.xml\n        found = self.styles.get_style(\n            family,\n            name_or_element=name_or_element,\n            display_name=display_name,\n        )\n        if found is None and isinstance(name_or_element, str):\n            self.insert_style(Style(family, name=name_or_element))\n        return found", "R15a"),
    Seed("to_csv strips the table before exporting", "fault", _T,
         "        out = StringIO(newline=\"\")\n        csv_writer = csv.writer(out, dialect=dialect)", "        self.rstrip()\n        out = StringIO(newline=\"\")\n        csv_writer = csv.writer(out, dialect=dialect)", "R15a"),
    Seed("get_formatted_text of a table deletes covered cells through a helper", "fault", _T,
         "    def _get_formatted_text_normal(self, context: dict | None) -> str:\n        result = []\n        for row in self.traverse():",
         "    def _get_formatted_text_normal(self, context: dict | None) -> str:\n        result = []\n        for live in self._get_rows():\n            live.rstrip()\n        for row in self.traverse():", "R15a"),
    Seed("Meta.as_dict stamps the generator", "fault", "src/odfdo/meta.py",
         "    def as_dict(self, full: bool = False) -> dict[str, Any]:", "    def as_dict(self, full: bool = False) -> dict[str, Any]:\n        self.set_generator_default()", "R15a"),
    unparse_seed(_EL), unparse_seed(_T), unparse_seed(_MD), unparse_seed("src/odfdo/document.py"), unparse_seed("src/odfdo/paragraph.py"),
    Seed("export works on an explicit deepcopy", "neutral", "src/odfdo/xmlpart.py",
         "        root = deepcopy(tree.getroot())\n        return pretty_indent(root)", "        copied = deepcopy(tree)\n        root = copied.getroot()\n        return pretty_indent(root)"),
    Seed("read-only method builds and edits a fresh element", "neutral", _EL,
         "    def text_recursive(self) -> str:\n        return self.inner_text + (self.tail or \"\")",
         "    def text_recursive(self) -> str:\n        probe = Element.from_tag(\"text:span\")\n        probe.text = self.inner_text\n        probe.tail = self.tail or \"\"\n        return probe.text + (probe.tail or \"\")"),
    Seed("read-only method edits a clone", "neutral", _EL,
         "        match = re.search(pattern, self.text_recursive)\n        if match is None:\n            return None\n        return match.start()\n\n    def search_first(", "        work = self.clone\n        work.tail = None\n        match = re.search(pattern, self.text_recursive)\n        if match is None:\n            return None\n        return match.start()\n\n    def search_first("),
]
