"""C16 — search and replace act on the text as the regular expression says (structural clauses).

R16a  the count-only path of replace() has no effect (EFF under new=None) and counts len(findall) per text node
R16b  write-back slot: the substituted string goes to container.text under is_text() and to container.tail otherwise;
      the count accumulates subn's number
R16c  formatted re-normalisation is gated by exactly the tags of the classes that own append_plain_text
R16d  the search family reads one text accessor
R16e  the replace/highlight scripts pass pattern, replacement and the formatted flag in the order replace() expects
"""

from __future__ import annotations

import ast

from ..core import UNKNOWN, AnalysisError, FuncInfo, call_name, get_arg, norm, walk_no_nested
from ..eff import Eff
from ..paths import structural_guards
from ..registry import build_registry

EXPLANATION = (
    "Structural rules on Element.replace and the search family: effect analysis of replace() under the constant "
    "new=None (no write reachable) and extraction of what the count accumulates in each arm; slot discipline of the "
    "write-back (the text node's own is_text() predicate selects .text, the other arm .tail, both receive the "
    "substituted string of that node); comparison of the tag set gating the formatted re-normalisation with the "
    "_tag of every registered class defining or inheriting append_plain_text; agreement of the accessor read by "
    "search / search_first / search_all / text_at / match; argument order at the script call sites. Agreement "
    "with `re` on matches at node edges, and whether positions index the element's own text (the accessor includes "
    "the tail) are semantic questions about the accessor and not decided; white-space encoding is C05."
)
ASSUMPTIONS = [
    "re.subn / findall count non-overlapping matches as documented",
    "descendant::text() enumerates every text run of the element exactly once (XPath semantics)",
]


def r16a(ctx):
    repo = ctx.repo
    ctx.rule("R16a", "replace(pattern) without replacement only counts: no write reachable, count = sum of len(findall) per text node", floor=3)
    f = repo.func("Element.replace")
    eff = Eff(repo)
    eff.solve([(f, {"new": None})])
    s = eff.summary(f, {"new": None})
    bad = [(site, chain) for (atom, skey), (site, chain) in s.muts.items() if atom == "S" or atom.startswith("P:")]
    ctx.instance("R16a", f"{f.file}:{f.ident}", f"effect summary under new=None: {len(bad)} write(s)", ok=not bad, nontrivial=True, line=f.node.lineno)
    for site, chain in bad[:3]:
        first = chain[0] if chain else (site.func, site.node, site.what)
        ctx.report("R16a", first[0], first[1], f"count-only replace reaches {norm(first[1], 50)}",
                   f"replace(pattern) with no replacement reaches a write ({site.func.ident}: {site.what}): counting matches changes the document")
    # the arms
    arm = None
    from ..paths import if_arms

    def is_new_none(t):
        """+1 for `new is None`, -1 for `new is not None`, 0 otherwise"""
        if isinstance(t, ast.Compare) and len(t.ops) == 1 and isinstance(t.left, ast.Name) and t.left.id == "new" and isinstance(t.comparators[0], ast.Constant) \
                and t.comparators[0].value is None:
            return 1 if isinstance(t.ops[0], ast.Is) else (-1 if isinstance(t.ops[0], ast.IsNot) else 0)
        return 0

    for n in walk_no_nested(f.node):
        if not isinstance(n, ast.If):
            continue
        core, when_t, when_f = if_arms(n)
        k = is_new_none(core)
        if k == 0:
            continue
        count_arm, repl_arm = (when_t, when_f) if k == 1 else (when_f, when_t)
        if n.test is core and k == 1:
            arm = n
        else:
            # the same decision written another way round: normalise to (count arm, replace arm)
            arm = ast.If(test=core if k == 1 else ast.Compare(left=core.left, ops=[ast.Is()], comparators=core.comparators), body=count_arm, orelse=repl_arm)
            ast.copy_location(arm, n)
            ast.fix_missing_locations(arm)
            for ch in ast.walk(arm):
                for c2 in ast.iter_child_nodes(ch):
                    c2._parent = ch
            arm._parent = getattr(n, "_parent", None)
    if arm is None:
        raise AnalysisError("R16a: `if new is None` arm not found in Element.replace")
    loop = None
    cur = arm
    while cur is not None and loop is None:
        cur = getattr(cur, "_parent", None)
        if isinstance(cur, ast.For):
            loop = cur
    q = repo.fold(loop.iter.args[0], f.module) if loop is not None and isinstance(loop.iter, ast.Call) and loop.iter.args else None
    ok = q == "descendant::text()"
    ctx.instance("R16a", f"{f.file}:{f.ident}", f"iterates the text nodes of {q!r}", ok=ok, nontrivial=True)
    if not ok:
        ctx.report("R16a", f, loop or f.node, f"text nodes query {q!r}", "replace() no longer visits every descendant text node exactly once")
    # the per-node loop is on every normal path: no early exit decided on the concatenated text
    from ..paths import cfg_of, node_of
    cfg = cfg_of(f)
    if loop is not None:
        cex = cfg.path_avoiding(cfg.entry, cfg.exit, [node_of(cfg, loop)], follow_exc=False)
        ctx.instance("R16a", f"{f.file}:{f.ident}", "every normal path of replace() runs the per-text-node loop", ok=cex is None, nontrivial=True, line=loop.lineno)
        if cex is not None:
            esc = [x for x in cex if x.stmt is not None and isinstance(x.stmt, ast.Return)]
            ctx.report("R16a", f, esc[0].stmt if esc else loop, f"replace() can return without visiting the text nodes: {norm(esc[0].stmt, 40) if esc else ''}",
                       "matches are defined per individual text run; a path that returns before the per-node loop decides on something else (the joined text, "
                       "a cached answer): anchored or context-sensitive patterns are then counted/replaced differently from the regular expression applied to each run",
                       path=[repr(x) for x in cex if x.stmt is not None][:8])
    incs = [a for a in ast.walk(arm) if isinstance(a, ast.AugAssign) and isinstance(a.target, ast.Name)]
    body_incs = [a for s_ in arm.body for a in ast.walk(s_) if isinstance(a, ast.AugAssign)]
    else_incs = [a for s_ in arm.orelse for a in ast.walk(s_) if isinstance(a, ast.AugAssign)]
    from ..paths import canon
    cv = canon(f, body_incs[0].value).replace(" ", "") if len(body_incs) == 1 else ""
    # len(<compiled pattern>.findall(<this text node>)) — the compiled pattern is whatever local holds re.compile(pattern)
    ok = len(body_incs) == 1 and cv.startswith("len(re.compile(pattern).findall(") and isinstance(body_incs[0].op, ast.Add) \
        and loop is not None and isinstance(loop.target, ast.Name) and any(isinstance(x, ast.Name) and x.id == loop.target.id for x in ast.walk(body_incs[0].value))
    ctx.instance("R16a", f"{f.file}:{f.ident}", "count arm adds len(cpattern.findall(text))", ok=ok, nontrivial=True)
    if not ok:
        ctx.report("R16a", f, arm, "count arm", "the count-only arm does not add the number of non-overlapping matches of each text node")
    return arm, else_incs, loop


def r16b(ctx, arm, else_incs, loop):
    repo = ctx.repo
    ctx.rule("R16b", "the substituted string is written back into the slot the text node came from; the count adds subn's number", floor=3)
    f = repo.func("Element.replace")
    var = loop.target.id if isinstance(loop.target, ast.Name) else "text"
    subn = [n for s_ in arm.orelse for n in ast.walk(s_) if isinstance(n, ast.Assign) and isinstance(n.value, ast.Call) and call_name(n.value) == "subn"]
    ok = bool(subn) and isinstance(subn[0].targets[0], ast.Tuple) and len(subn[0].targets[0].elts) == 2 and \
        len(subn[0].value.args) == 2 and ast.unparse(subn[0].value.args[0]) == "new" and var in ast.unparse(subn[0].value.args[1])
    ctx.instance("R16b", f"{f.file}:{f.ident}", f"new_text, number = cpattern.subn(new, str({var}))", ok=ok, nontrivial=True)
    if not ok:
        ctx.report("R16b", f, arm, "subn call", "the replacement is not computed with cpattern.subn(new, <this text node>)")
        return
    new_text, number = (e.id for e in subn[0].targets[0].elts)
    stores = [n for s_ in arm.orelse for n in ast.walk(s_) if isinstance(n, ast.Assign) and isinstance(n.targets[0], ast.Attribute)
              and n.targets[0].attr in ("text", "tail")]
    slots = {}
    for st in stores:
        gs = structural_guards(st, stop=arm)
        pol = None
        for g, p in gs:
            if "is_text" in ast.unparse(g) and var in ast.unparse(g):
                pol = p
        slots[st.targets[0].attr] = (pol, ast.unparse(st.value), ast.unparse(st.targets[0].value))
    ok = slots.get("text", (None,))[0] is True and slots.get("tail", (None,))[0] is False and \
        all(v[1] == new_text for v in slots.values()) and len({v[2] for v in slots.values()}) == 1
    ctx.instance("R16b", f"{f.file}:{f.ident}", f"slots {slots}", ok=ok, nontrivial=True)
    if not ok:
        ctx.report("R16b", f, arm, f"write-back slots {slots}",
                   "the substituted string is not written to container.text when the node is the text of its parent and to container.tail otherwise: "
                   "replaced text lands in the wrong slot (neighbouring text is overwritten)")
    # container is the parent of this very text node
    cont = [n for s_ in arm.orelse for n in ast.walk(s_) if isinstance(n, ast.Assign) and isinstance(n.targets[0], ast.Name)
            and ast.unparse(n.value) == f"{var}.parent"]
    okc = bool(cont) and all(v[2] == cont[0].targets[0].id for v in slots.values())
    ctx.instance("R16b", f"{f.file}:{f.ident}", "the container written is the parent of this text node", ok=okc)
    if not okc:
        ctx.report("R16b", f, arm, "container is not text.parent", "the element written back to is not the parent of the text node that was substituted")
    okn = len(else_incs) == 1 and ast.unparse(else_incs[0].value) == number
    ctx.instance("R16b", f"{f.file}:{f.ident}", f"count += {number}", ok=okn, nontrivial=True)
    if not okn:
        ctx.report("R16b", f, arm, "count in the replace arm", "the replace arm does not add the number of substitutions reported by subn")


def r16c(ctx, arm):
    repo = ctx.repo
    ctx.rule("R16c", "formatted re-normalisation is gated by the tags of the classes owning append_plain_text", floor=1)
    f = repo.func("Element.replace")
    reg = build_registry(repo)
    owners = {tag for tag, c in reg.tag2cls.items() if c.lookup("append_plain_text") is not None and not tag.endswith("-odfdo-notodf")}
    gate = None
    for n in ast.walk(arm):
        if isinstance(n, ast.Compare) and isinstance(n.ops[0], ast.In) and "tag" in ast.unparse(n.left):
            gate = repo.fold(n.comparators[0], f.module)
            gnode = n
    ok = isinstance(gate, (set, frozenset)) and set(gate) == owners
    ctx.instance("R16c", f"{f.file}:{f.ident}", f"gate {sorted(gate) if isinstance(gate, (set, frozenset)) else gate} == owners {sorted(owners)}", ok=ok, nontrivial=True)
    if not ok:
        ctx.report("R16c", f, arm, f"formatted gate {sorted(gate) if isinstance(gate, (set, frozenset)) else gate} vs {sorted(owners)}",
                   "replace(formatted=True) re-normalises white space for a tag set that differs from the classes that implement append_plain_text: "
                   "either AttributeError on a container without the method, or spaces/tabs/newlines left unencoded in one that has it")
    calls = [c for c in walk_no_nested(f.node) if isinstance(c, ast.Call) and call_name(c) == "append_plain_text"]
    okc = False
    if len(calls) == 1:
        c0 = calls[0]
        if any("formatted" in ast.unparse(g) and p for g, p in structural_guards(c0, stop=f.node)):
            okc = True  # called directly under the gate
        else:
            # deferred form: the gate fills a collection, a later loop over that collection normalises each container
            from ..paths import enclosing_loops
            lp = enclosing_loops(c0)
            recv = c0.func.value.id if isinstance(c0.func, ast.Attribute) and isinstance(c0.func.value, ast.Name) else None
            if lp and recv and isinstance(lp[0].target, ast.Name) and lp[0].target.id == recv:
                coll = {x.id for x in ast.walk(lp[0].iter) if isinstance(x, ast.Name)}
                fills = []
                for n in walk_no_nested(f.node):
                    if isinstance(n, ast.Assign) and isinstance(n.targets[0], ast.Subscript) and isinstance(n.targets[0].value, ast.Name) and n.targets[0].value.id in coll:
                        fills.append(n)
                    if isinstance(n, ast.Call) and call_name(n) in ("append", "add") and isinstance(n.func, ast.Attribute) and isinstance(n.func.value, ast.Name) \
                            and n.func.value.id in coll:
                        fills.append(n)
                okc = bool(fills) and all(any("formatted" in ast.unparse(g) and p for g, p in structural_guards(x, stop=f.node)) for x in fills)
    ctx.instance("R16c", f"{f.file}:{f.ident}", "append_plain_text(\"\") only under formatted", ok=okc)
    if not okc:
        ctx.report("R16c", f, arm, "append_plain_text gate", "white-space re-normalisation is not controlled by the formatted flag")


def r16f(ctx, loop):
    """The text nodes are collected before the loop: nothing inside the loop may restructure the tree they belong to."""
    repo = ctx.repo
    ctx.rule("R16f", "no structural change of the tree while iterating its pre-collected text nodes (only .text/.tail write-backs)", floor=1)
    f = repo.func("Element.replace")
    import re as _re
    STRUCT = _re.compile(r"\.(remove|insert|append|extend|clear|replace|addnext|addprevious)\(")
    eff = Eff(repo)
    calls_ = [c for s_ in loop.body for c in ast.walk(s_) if isinstance(c, ast.Call) and isinstance(c.func, ast.Attribute)]
    n = 0
    for c in calls_:
        m = c.func.attr
        targets = [g for g in eff.by_name.get(m, ()) if g.cls is not None and eff.class_kind(g.cls) == "ELEM" and g.kind not in ("setter", "deleter")]
        if not targets or m in ("xpath", "findall", "subn", "is_text"):
            continue
        eff.solve([(g, {}) for g in targets])
        bad = []
        for g in targets:
            s = eff.summary(g, {})
            for (atom, skey), (site, chain) in s.muts.items():
                if atom == "S" and STRUCT.search(site.what):
                    bad.append((g, site))
        n += 1
        ctx.instance("R16f", f"{f.file}:{f.ident}", f"{norm(c, 40)} inside the text-node loop does not restructure the tree", ok=not bad, nontrivial=True, line=c.lineno)
        if bad:
            g, site = bad[0]
            ctx.report("R16f", f, c, f"{norm(c, 50)} inside the loop over the collected text nodes",
                       f"{g.ident} removes/re-inserts children ({site.func.ident}: {site.what}); the text nodes still to be visited were collected before the loop "
                       f"and now point at moved nodes: their replacement is written to the wrong place and text is duplicated")
    if n == 0:
        ctx.instance("R16f", f"{f.file}:{f.ident}", "the loop body calls no element method besides the write-backs", ok=True, line=loop.lineno)


def r16d(ctx):
    repo = ctx.repo
    ctx.rule("R16d", "search, search_first, search_all, text_at and match read the same text accessor", floor=4)
    acc = {}
    for name in ("search", "search_first", "search_all", "text_at"):
        f = repo.func(f"Element.{name}")
        reads = sorted({n.attr for n in walk_no_nested(f.node) if isinstance(n, ast.Attribute) and isinstance(n.value, ast.Name) and n.value.id == "self"
                        and n.attr in ("text", "text_recursive", "inner_text", "text_content", "tail")})
        acc[name] = reads
    ref = acc["search"]
    for name, reads in acc.items():
        ok = reads == ref and len(reads) == 1
        ctx.instance("R16d", f"src/odfdo/element.py:Element.{name}", f"reads self.{reads}", ok=ok, nontrivial=True)
        if not ok:
            f = repo.func(f"Element.{name}")
            ctx.report("R16d", f, f.node, f"Element.{name} reads {reads}, search reads {ref}",
                       f"{name} reads {reads} while search reads {ref}: positions returned by one do not index the text read by the other")
    # … and apply the caller's pattern as it is: the same `re` call shape everywhere — pattern and text, no flags (MULTILINE moves ^ and $ to every line
    # break of the text, IGNORECASE/DOTALL change what matches), no pre-compilation with flags
    for name in ("search", "search_first", "search_all", "replace"):
        f = repo.func(f"Element.{name}")
        recalls = [c for c in walk_no_nested(f.node) if isinstance(c, ast.Call) and isinstance(c.func, ast.Attribute) and isinstance(c.func.value, ast.Name) and c.func.value.id == "re"
                   and c.func.attr in ("search", "match", "fullmatch", "finditer", "findall", "compile", "sub", "subn", "split")]
        bad = [c for c in recalls if any(k.arg == "flags" for k in c.keywords) or len(c.args) > (1 if c.func.attr == "compile" else 2 if c.func.attr not in ("sub", "subn") else 3)]
        if recalls:
            ctx.instance("R16d", f"src/odfdo/element.py:Element.{name}", f"{len(recalls)} re call(s) with the caller's pattern and no flags", ok=not bad, nontrivial=True)
        for c in bad[:1]:
            ctx.report("R16d", f, c, f"{norm(c, 60)} passes flags",
                       f"Element.{name} applies the pattern with extra flags (`{norm(c, 50)}`): anchors, case or '.' then behave differently from the same regular expression applied to "
                       f"the element's text — and differently from the sibling methods")
    m = repo.func("Element.match")
    ok = any(isinstance(c, ast.Call) and call_name(c) == "search" and isinstance(c.func, ast.Attribute) and isinstance(c.func.value, ast.Name)
             and c.func.value.id == "self" for c in walk_no_nested(m.node))
    ctx.instance("R16d", f"{m.file}:{m.ident}", "match delegates to search", ok=ok)
    if not ok:
        ctx.report("R16d", m, m.node, "match does not use search", "match no longer agrees with search by construction")


def r16e(ctx):
    repo = ctx.repo
    ctx.rule("R16e", "scripts call replace(pattern, replacement, formatted) in the order the method defines", floor=1)
    rep = repo.func("Element.replace")
    order = rep.params[1:]
    n = 0
    for modname in ("scripts.replace", "scripts.highlight"):
        m = repo.module(modname)
        for f in m.all_funcs:
            for c in walk_no_nested(f.node):
                if isinstance(c, ast.Call) and call_name(c) == "replace" and isinstance(c.func, ast.Attribute) and len(c.args) + len(c.keywords) >= 2 \
                        and "body" in ast.unparse(c.func.value):
                    n += 1
                    names = [ast.unparse(a) for a in c.args]
                    ok = True
                    for a, p in zip(names, order):
                        if p == "pattern" and "pattern" not in a:
                            ok = False
                        if p == "new" and not ("replac" in a or "new" in a):
                            ok = False
                        if p == "formatted" and "formatted" not in a:
                            ok = False
                    ctx.instance("R16e", f"{f.file}:{f.ident}", f"replace({', '.join(names)}) vs parameters {order}", ok=ok, line=c.lineno)
                    if not ok:
                        ctx.report("R16e", f, c, c, f"arguments {names} do not line up with replace{tuple(order)}")
    if n == 0:
        ctx.rules["R16e"].floor = 0
        ctx.note("R16e: no body.replace call in the scripts")


WHOLE_CONTENT = {"xpath", "inner_text", "text_recursive", "get_formatted_text", "text_content", "itertext", "get_elements", "children", "serialize"}


def r16g(ctx):
    """The normaliser that `replace(formatted=True)` relies on always looks at the whole container.

    After a formatted replace the substituted strings sit raw in `.text`/`.tail` slots anywhere in the container; `append_plain_text("")`
    is what turns their blanks, tabs and line breaks into text:s / text:tab / text:line-break.  It can only do that if every normal path
    through it re-reads the complete content (`_expand_spaces`, which walks `*|text()`), or leaves early under a test that itself reads
    the whole content.  An early return decided on the appended string alone, or on the leading `.text` only, skips the tails.
    """
    from ..paths import cfg_of, node_of
    repo = ctx.repo
    ctx.rule("R16g", "append_plain_text re-reads the whole container on every normal path (an early exit must be decided on the whole content)", floor=3)
    n = 0
    for c in repo.all_classes():
        fs = c.methods.get("append_plain_text")
        if not fs:
            continue
        f = fs[0]
        cfg = cfg_of(f)
        readers = [x for x in walk_no_nested(f.node) if isinstance(x, ast.Call) and call_name(x) == "_expand_spaces"]
        n += 1
        if not readers:
            # a delegating override (e.g. a mixin calling the paragraph implementation) carries no obligation of its own
            deleg = [x for x in walk_no_nested(f.node) if isinstance(x, ast.Call) and call_name(x) == "append_plain_text"]
            ctx.instance("R16g", f"{f.file}:{f.ident}", "delegates to another append_plain_text" if deleg else "does not read the container", ok=bool(deleg), line=f.node.lineno)
            if not deleg:
                ctx.report("R16g", f, f.node, f"{c.name}.append_plain_text never reads the current content", "the normaliser does not re-read the container it is meant to normalise")
            continue
        rn = [node_of(cfg, r) for r in readers]
        cex = cfg.path_avoiding(cfg.entry, cfg.exit, rn, follow_exc=False)
        ok, why, at = True, "every normal path re-reads the whole content", None
        if cex is not None:
            last = [x for x in cex if x.stmt is not None][-1].stmt
            gs = structural_guards(last)
            whole = any(isinstance(x, (ast.Call, ast.Attribute)) and ((call_name(x) if isinstance(x, ast.Call) else x.attr) in WHOLE_CONTENT) for t, _ in gs for x in ast.walk(t))
            if not whole:
                ok, at = False, last
                why = f"`{norm(last, 30)}` under {[norm(t, 50) for t, _ in gs]} leaves without reading the whole content"
        ctx.instance("R16g", f"{f.file}:{f.ident}", why, ok=ok, nontrivial=True, line=f.node.lineno)
        if not ok:
            ctx.report("R16g", f, at, why,
                       f"{c.name}.append_plain_text can return before re-reading the container, on a test that does not look at all of its text: white space left raw in the "
                       f"tails of child elements (where replace(formatted=True) writes it) is never converted to text:s / text:tab / text:line-break")
        # the reader itself walks children and text nodes
        g = c.lookup("_expand_spaces")
        if g is not None:
            qs = [repo.fold(x.args[0], g.module) for x in walk_no_nested(g.node) if isinstance(x, ast.Call) and call_name(x) == "xpath" and x.args]
            okq = any(isinstance(q, str) and "text()" in q and "*" in q for q in qs)
            ctx.instance("R16g", f"{g.file}:{g.ident}", f"walks child elements and text nodes ({qs})", ok=okq, line=g.node.lineno)
            if not okq:
                ctx.report("R16g", g, g.node, f"_expand_spaces queries {qs}", "the content reader of the normaliser no longer walks every child element and text node of the container")
            # and every text node it meets is kept
            loop = [x for x in walk_no_nested(g.node) if isinstance(x, ast.For)]
            okl = bool(loop) and not any(isinstance(x, ast.Break) for x in ast.walk(loop[0]))
            ctx.instance("R16g", f"{g.file}:{g.ident}", "no early end of the walk", ok=okl, line=g.node.lineno)
            if not okl:
                ctx.report("R16g", g, loop[0] if loop else g.node, "walk over the content can stop early", "the content reader of the normaliser can stop before the last child")
    if n == 0:
        raise AnalysisError("R16g: no append_plain_text found")


def r16h(ctx):
    """The text that is searched is read from the live tree each time.

    search / search_all / text_at / match index the element's text as it is *now*.  An accessor that remembers its last answer on the wrapper
    (an attribute written by the getter, functools cache decorators) answers from the old text after a descendant run was edited through
    another wrapper — no fingerprint of the element's own slots can see that.  Rule: the accessor the search family reads, and every
    accessor it is built from (two levels), writes no attribute of self and carries no cache decorator.
    """
    repo = ctx.repo
    ctx.rule("R16h", "the text accessors behind search are recomputed from the live tree (no memo on the wrapper, no cache decorator)", floor=2)
    el = repo.cls("Element")
    f0 = repo.func("Element.search")
    roots = sorted({n.attr for n in walk_no_nested(f0.node) if isinstance(n, ast.Attribute) and isinstance(n.value, ast.Name) and n.value.id == "self"
                    and el.lookup(n.attr, "getter") is not None})
    seen, work = set(), [(r, 0) for r in roots]
    while work:
        prop, d = work.pop()
        if prop in seen or d > 2:
            continue
        seen.add(prop)
        g = el.lookup(prop, "getter")
        if g is None:
            continue
        stores = [a for a in walk_no_nested(g.node) if isinstance(a, (ast.Assign, ast.AugAssign, ast.AnnAssign))
                  for t in (a.targets if isinstance(a, ast.Assign) else [a.target])
                  if isinstance(t, ast.Attribute) and isinstance(t.value, ast.Name) and t.value.id == "self"]
        stores += [c for c in walk_no_nested(g.node) if isinstance(c, ast.Call) and call_name(c) == "setattr" and c.args and isinstance(c.args[0], ast.Name) and c.args[0].id == "self"]
        deco = [d_ for d_ in g.node.decorator_list if any(isinstance(x, (ast.Name, ast.Attribute)) and (getattr(x, "id", None) or getattr(x, "attr", "")) in
                                                          ("cache", "lru_cache", "cached_property") for x in ast.walk(d_))]
        ok = not stores and not deco
        ctx.instance("R16h", f"{g.file}:{g.ident}", "computed from the tree on every read" if ok else "keeps its answer on the wrapper", ok=ok, nontrivial=True, line=g.node.lineno)
        if not ok:
            at = stores[0] if stores else g.node
            ctx.report("R16h", g, at, f"{norm(at, 60)}" if stores else f"cache decorator on {g.ident}",
                       f"{g.ident} is (part of) the text that search/search_all/text_at/match read, and it remembers its result on the wrapper: after a text run of a "
                       f"descendant is changed (replace() inside a span, an edit through another wrapper) the next search answers from the old text, so positions no longer "
                       f"index the element's text")
        for n in walk_no_nested(g.node):
            if isinstance(n, ast.Attribute) and isinstance(n.value, ast.Name) and n.value.id == "self" and n.attr != prop and el.lookup(n.attr, "getter") is not None:
                work.append((n.attr, d + 1))
    if not roots:
        raise AnalysisError("R16h: Element.search reads no property accessor")


def regex_alphabet(pat: str) -> set[str] | None:
    """The characters a regular expression can consume, when that is a small explicit set; None when it uses a category (\\s, \\w …),
    `.`, a negated set or a range wider than 16 characters (parsed with re._parser: no text matching)."""
    import re._parser as sp  # type: ignore
    try:
        tree = sp.parse(pat)
    except Exception:  # noqa: BLE001
        return None

    def go(items) -> set[str] | None:
        out: set[str] = set()
        for op, av in items:
            o = str(op)
            if o == "LITERAL":
                out.add(chr(av))
            elif o == "IN":
                for o2, a2 in av:
                    o2 = str(o2)
                    if o2 == "LITERAL":
                        out.add(chr(a2))
                    elif o2 == "RANGE" and a2[1] - a2[0] < 16:
                        out |= {chr(x) for x in range(a2[0], a2[1] + 1)}
                    else:
                        return None
            elif o in ("MAX_REPEAT", "MIN_REPEAT", "POSSESSIVE_REPEAT"):
                r = go(av[2])
                if r is None:
                    return None
                out |= r
            elif o in ("SUBPATTERN",):
                r = go(av[3])
                if r is None:
                    return None
                out |= r
            elif o == "ATOMIC_GROUP":
                r = go(av)
                if r is None:
                    return None
                out |= r
            elif o == "BRANCH":
                for br in av[1]:
                    r = go(br)
                    if r is None:
                        return None
                    out |= r
            elif o in ("AT", "ASSERT", "ASSERT_NOT"):
                continue
            else:
                return None
        return out

    return go(list(tree))


def _append_path_funcs(repo):
    """Functions of Element / ParagraphBase / Paragraph that text chunks travel through: reachable by self-calls that pass arguments to a
    str-carrying parameter, from append_plain_text and Element.append (depth 4)."""
    start = []
    for q in ("Paragraph.append_plain_text", "Element.append", "Element._Element__append", "Element.__append"):
        g = repo.find_func(q)
        if g is not None:
            start.append(g)
    if not start:
        raise AnalysisError("R16i: append path not found")
    seen, work = {}, [(g, 0) for g in start]
    while work:
        g, d = work.pop()
        if id(g.node) in seen or d > 4:
            continue
        seen[id(g.node)] = g
        if g.cls is None:
            continue
        for c in walk_no_nested(g.node):
            if isinstance(c, ast.Call) and isinstance(c.func, ast.Attribute) and isinstance(c.func.value, ast.Name) and c.func.value.id in ("self", "cls"):
                nm = c.func.attr
                if nm.startswith("_Element__"):
                    nm = nm[len("_Element"):]
                h = g.cls.lookup(nm) or repo.cls("Paragraph").lookup(nm)
                # only callees that are handed text: some argument, and a parameter declared to carry str
                if h is not None and (c.args or c.keywords) and any(a.annotation is not None and "str" in ast.unparse(a.annotation) for a in h.node.args.args):
                    work.append((h, d + 1))
    return list(seen.values())


def r16i(ctx, children: bool = True):
    """Re-encoding a container keeps its children and its characters.

    `replace(formatted=True)` collects the containers it has written into and calls `append_plain_text("")` on each wrapper afterwards.
    That only "encodes spaces, tabs and line breaks as in a freshly created paragraph" and leaves "markup and neighbouring text in place" if
    (a) the content reader hands on the live child elements — with copies, the wrapper of a nested span collected earlier points at a
    node that is no longer in the tree and is never re-encoded — and (b) the only characters the append path rewrites are the ones the
    encoding is about: a regular expression substituted on that path consumes U+0020 only (tab and line break have been split out before;
    NBSP, thin spaces, CR are text).
    """
    repo = ctx.repo
    ctx.rule("R16i", "the append_plain_text path hands on the live children and rewrites no character other than U+0020", floor=2)
    if children:
        _r16i_children(ctx)
    _r16i_subs(ctx)


def _r16i_children(ctx):
    repo = ctx.repo
    g = repo.cls("Paragraph").lookup("_expand_spaces")
    if g is None:
        raise AnalysisError("R16i: Paragraph._expand_spaces not found")
    loops = [x for x in walk_no_nested(g.node) if isinstance(x, ast.For) and isinstance(x.target, ast.Name)
             and any(isinstance(c, ast.Call) and call_name(c) in ("xpath", "iterchildren", "children") or isinstance(c, ast.Attribute) and c.attr == "children" for c in ast.walk(x.iter))]
    if len(loops) != 1:
        raise AnalysisError("R16i: content walk of _expand_spaces not found")
    lp = loops[0]
    v = lp.target.id
    aliases = {v}
    for st in walk_no_nested(lp):
        if isinstance(st, ast.Assign) and isinstance(st.value, ast.Name) and st.value.id in aliases:
            aliases |= {t.id for t in st.targets if isinstance(t, ast.Name)}
    bad = []
    n_el = 0
    for c in walk_no_nested(lp):
        if isinstance(c, ast.Call) and isinstance(c.func, ast.Attribute) and c.func.attr in ("append", "extend", "insert") and c.args and isinstance(c.func.value, ast.Name):
            e = c.args[-1]
            texty = isinstance(e, (ast.Constant, ast.JoinedStr)) or isinstance(e, ast.Call) and call_name(e) == "str" or isinstance(e, ast.Attribute) and e.attr in ("text", "tail")
            if texty:
                continue
            n_el += 1
            if not (isinstance(e, ast.Name) and e.id in aliases):
                bad.append(c)
    ctx.instance("R16i", f"{g.file}:{g.ident}", f"{n_el} element hand-over(s): the walked child itself", ok=not bad and n_el > 0, nontrivial=True, line=lp.lineno)
    if n_el == 0:
        ctx.report("R16i", g, lp, "no child element handed on", "the content reader of append_plain_text drops the child elements of the container")
    for c in bad:
        ctx.report("R16i", g, c, norm(c, 60),
                   f"{g.ident} hands `{norm(c.args[-1], 40)}` to the rebuild instead of the child it walks: append_plain_text then replaces every inline child by another node, and the "
                   f"wrappers that replace(formatted=True) has queued for re-encoding (nested spans) point at nodes no longer in the document, so their tabs, line breaks and "
                   f"blanks stay raw")


def _r16i_subs(ctx):
    # (b) substitutions on the append path
    repo = ctx.repo
    n_sub = 0
    for f in _append_path_funcs(repo):
        for c in walk_no_nested(f.node):
            if not (isinstance(c, ast.Call) and isinstance(c.func, ast.Attribute) and c.func.attr in ("sub", "subn")):
                continue
            recv = c.func.value
            pat = UNKNOWN
            if isinstance(recv, ast.Name) and recv.id == "re" and c.args:
                pat = repo.fold(c.args[0], f.module)
                repl = c.args[1] if len(c.args) > 1 else None
            else:
                node = f.module.assigns.get(recv.id) if isinstance(recv, ast.Name) else None
                if isinstance(node, ast.Call) and node.args:
                    pat = repo.fold(node.args[0], f.module)
                repl = c.args[0] if c.args else None
            n_sub += 1
            alpha = regex_alphabet(pat) if isinstance(pat, str) else None
            ok = alpha is not None and alpha <= {" "} and isinstance(repl, ast.Constant) and repl.value == " "
            ctx.instance("R16i", f"{f.file}:{f.ident}", f"`{norm(c, 40)}`: pattern {pat!r} consumes {sorted(alpha) if alpha is not None else 'an open character class'}", ok=ok, nontrivial=True, line=c.lineno)
            if not ok:
                ctx.report("R16i", f, c, f"{norm(c, 50)} with pattern {pat!r}",
                           f"{f.ident} is on the path every text chunk takes through append()/append_plain_text() and substitutes {pat!r}: characters other than U+0020 "
                           f"(no-break and typographic spaces, CR …) in the neighbouring text or in the replacement are rewritten, so the result of a formatted replace is not "
                           f"re.sub() of the text and a string does not survive Paragraph(text)")
    ctx.extra["append_path_substitutions"] = n_sub
    if n_sub == 0:
        ctx.note("R16i: no regex substitution on the append path")


def r16j(ctx):
    """An element is never false.

    replace() skips a text node whose container is missing with `if not container: continue`; the search family, the inserters and the
    style code test elements the same way in some 200 places.  All of them mean "is None".  That holds only while no class of the Element
    hierarchy defines `__len__` or `__bool__`: with one, an element without text (an empty text:span left by an editor) becomes false, the
    run that follows it is silently not replaced and not counted, while the count-only call still counts it.  Rule (expected count 0): no
    `__len__` / `__bool__` in Element, its subclasses or their mixins; the number of truth tests on names relying on it is reported.
    """
    repo = ctx.repo
    ctx.rule("R16j", "no class of the Element hierarchy defines __len__ or __bool__ (truth tests on elements mean `is not None`)", floor=80)
    from ..registry import element_classes
    classes = []
    for c in element_classes(repo) + [repo.cls("Element")]:
        for k in c.mro:
            if k not in classes:
                classes.append(k)
    for c in classes:
        bad = [f for nm in ("__len__", "__bool__") for f in c.methods.get(nm, [])]
        ctx.instance("R16j", f"{c.module.relpath}:{c.name}", "truthiness is object identity", ok=not bad, nontrivial=bool(bad), line=c.node.lineno)
        for f in bad:
            ctx.report("R16j", f, f.node, f"{c.name}.{f.name}",
                       f"{c.name} defines {f.name}: every `if not <element>` of the package (replace() guards each text node's container that way) now also skips elements that are "
                       f"merely empty — text after an empty span is neither replaced nor counted, although the regular expression matches it")
    f = repo.func("Element.replace")
    n_truth = sum(1 for x in walk_no_nested(f.node) if isinstance(x, ast.If) and (isinstance(x.test, ast.Name) or isinstance(x.test, ast.UnaryOp) and isinstance(x.test.operand, ast.Name)))
    ctx.extra["truth_tests_on_names_in_replace"] = n_truth


def r16k(ctx):
    """The slots replace() writes through store what they are given.

    replace() puts the substituted run back with `container.text = …` or `container.tail = …` (R16b).  Those two setters of Element are the
    last hands the string passes through: they may turn None into "", nothing else.  A filter there (control characters, a strip) changes
    the replacement and the untouched text around it, and only in the runs that happen to be a `.text` — the `.tail` runs keep it.
    """
    from .c14 import _lossy_call
    repo = ctx.repo
    ctx.rule("R16k", "the Element.text / Element.tail setters store the string they are given (None becomes '')", floor=2)
    for prop in ("text", "tail"):
        f = repo.find_func(f"Element.{prop}", "setter")
        if f is None:
            raise AnalysisError(f"R16k: setter of Element.{prop} not found")
        par = [a.arg for a in f.node.args.args if a.arg != "self"][0]
        bad = [x for x in walk_no_nested(f.node) if isinstance(x, ast.Call) and _lossy_call(x)]
        stores = [a for a in walk_no_nested(f.node) if isinstance(a, ast.Assign) and isinstance(a.targets[0], ast.Attribute) and a.targets[0].attr == prop]
        for a in stores:
            v = a.value
            core = v.values[0] if isinstance(v, ast.BoolOp) and isinstance(v.op, ast.Or) else v
            if not (isinstance(core, ast.Name) and core.id == par):
                bad.append(a)
        ctx.instance("R16k", f"{f.file}:{f.ident}", f"{len(stores)} store(s) of the parameter itself", ok=not bad and bool(stores), nontrivial=True, line=f.node.lineno)
        for x in bad[:1]:
            ctx.report("R16k", f, x, f"Element.{prop} setter: {norm(x, 50)}",
                       f"the setter of Element.{prop} does not store its argument as given (`{norm(x, 50)}`): replace() writes every substituted run back through it, so characters of the "
                       f"replacement and of the neighbouring text are lost or changed in those runs")


def run(ctx):
    arm, else_incs, loop = r16a(ctx)
    r16b(ctx, arm, else_incs, loop)
    r16c(ctx, arm)
    r16f(ctx, loop)
    r16d(ctx)
    r16e(ctx)
    r16g(ctx)
    r16h(ctx)
    r16i(ctx)
    r16j(ctx)
    r16k(ctx)
    # search positions index the text the accessor returns: it has one definition (own text, then every child's str() and tail) — shared with C05
    from .c05 import r05c, r05d
    r05d(ctx)
    # replace(formatted=True) re-encodes the replacement through append_plain_text: the characters its splitter isolates must be the ones the encoder arms handle (shared with C05)
    r05c(ctx)
    from .round12 import r16l
    r16l(ctx)
    from .round12 import r16m
    r16m(ctx)


from ..selftest import Seed, unparse_seed  # noqa: E402

_EL = "src/odfdo/element.py"
SEEDS = [
    Seed("EText guesses is_text from the characters", "fault", "src/odfdo/element.py",
         "        self.__is_text = text_result.is_text", "        self.__is_text = self.__parent is not None and self.__parent.text == text_result", "R16m"),
    Seed("Element.xpath drops empty string results", "fault", "src/odfdo/element.py",
         "                if isinstance(obj, (str, bytes)):\n                    result.append(EText(obj))",
         "                if isinstance(obj, (str, bytes)):\n                    if obj:\n                        result.append(EText(obj))", "R16l"),
    Seed("Element.xpath tests for an element first", "neutral", "src/odfdo/element.py",
         "                if isinstance(obj, (str, bytes)):\n                    result.append(EText(obj))\n                elif isinstance(obj, _Element):\n                    result.append(Element.from_tag(obj))",
         "                if isinstance(obj, _Element):\n                    result.append(Element.from_tag(obj))\n                elif isinstance(obj, (str, bytes)):\n                    result.append(EText(obj))"),
    Seed("inner_text takes lxml's itertext() when all children are spans", "fault", _EL,
         '        return self.text + "".join(e._text_tail for e in self.children)',
         '        if len(self.__element) and all(c.tag.endswith("}span") for c in self.__element):\n            return "".join(self.__element.itertext())\n        return self.text + "".join(e._text_tail for e in self.children)', "R05d"),
    Seed("search_first applies the pattern with MULTILINE", "fault", _EL, "        match = re.search(pattern, self.text_recursive)\n        if match is None:\n            return None\n        return match.start(), match.end()",
         "        match = re.search(pattern, self.text_recursive, re.MULTILINE)\n        if match is None:\n            return None\n        return match.start(), match.end()", "R16d"),
    Seed("Element.text setter filters control characters and the tab", "fault", _EL, "            self.__element.text = text\n", "            self.__element.text = _re_anyspace.sub(\" \", text)\n", "R16k"),
    Seed("ParagraphBase gets a __len__", "fault", "src/odfdo/paragraph_base.py", "    def get_formatted_text(\n        self,\n        context: dict | None = None,\n        simple: bool = False,\n    ) -> str:\n        if not context:",
         "    def __len__(self) -> int:\n        return len(self.inner_text)\n\n    def get_formatted_text(\n        self,\n        context: dict | None = None,\n        simple: bool = False,\n    ) -> str:\n        if not context:", "R16j"),
    Seed("ParagraphBase gets a text_length method", "neutral", "src/odfdo/paragraph_base.py", "    def get_formatted_text(\n        self,\n        context: dict | None = None,\n        simple: bool = False,\n    ) -> str:\n        if not context:",
         "    def text_length(self) -> int:\n        return len(self.inner_text)\n\n    def get_formatted_text(\n        self,\n        context: dict | None = None,\n        simple: bool = False,\n    ) -> str:\n        if not context:"),
    Seed("_expand_spaces returns copies of the inline children", "fault", "src/odfdo/paragraph.py",
         '            obj.tail = ""\n            if obj.tag != "text:s":\n                result.append(obj)\n                continue',
         '            if obj.tag != "text:s":\n                child = obj.clone\n                child.tail = ""\n                result.append(child)\n                continue', "R16i"),
    Seed("_expand_spaces names the child it hands on", "neutral", "src/odfdo/paragraph.py",
         '            obj.tail = ""\n            if obj.tag != "text:s":\n                result.append(obj)\n                continue',
         '            obj.tail = ""\n            if obj.tag != "text:s":\n                child = obj\n                result.append(child)\n                continue'),
    Seed("_re_anyspace widened to \\s+", "fault", _EL, '_re_anyspace = re.compile(r" +")', '_re_anyspace = re.compile(r"\\s+")', "R16i"),
    Seed("_re_anyspace takes tabs too", "fault", _EL, '_re_anyspace = re.compile(r" +")', '_re_anyspace = re.compile(r"[ \\t]+")', "R16i"),
    Seed("_re_anyspace written with a quantifier", "neutral", _EL, '_re_anyspace = re.compile(r" +")', '_re_anyspace = re.compile(r"[ ]{1,}")'),
    Seed("text_recursive memoised on the wrapper", "fault", _EL,
         '        return self.inner_text + (self.tail or "")', '        if getattr(self, "_tr", None) is None:\n            self._tr = self.inner_text + (self.tail or "")\n        return self._tr', "R16h"),
    Seed("inner_text with a cache decorator", "fault", _EL,
         '    @property\n    def inner_text(self) -> str:', '    @property\n    @cache\n    def inner_text(self) -> str:', "R16h"),
    Seed("append_plain_text skips the rebuild when nothing is appended", "fault", "src/odfdo/paragraph.py",
         "        content = self._expand_spaces(stext)\n", "        if not stext:\n            return\n        content = self._expand_spaces(stext)\n", "R16g"),
    Seed("append_plain_text fast path looks at the leading text only", "fault", "src/odfdo/paragraph.py",
         "        content = self._expand_spaces(stext)\n", "        if not stext and '  ' not in (self.text or ''):\n            return\n        content = self._expand_spaces(stext)\n", "R16g"),
    Seed("append_plain_text fast path decided on the whole text", "neutral", "src/odfdo/paragraph.py",
         "        content = self._expand_spaces(stext)\n", "        if not stext and not self.children and not self.inner_text:\n            return\n        content = self._expand_spaces(stext)\n"),
    Seed("count-only path rewrites the node", "fault", _EL,
         "            if new is None:\n                count += len(cpattern.findall(str(text)))", "            if new is None:\n                count += len(cpattern.findall(str(text)))\n                text.parent.tail = str(text)", "R16a"),
    Seed("count uses search instead of findall", "fault", _EL,
         "                count += len(cpattern.findall(str(text)))", "                count += 1 if cpattern.search(str(text)) else 0", "R16a"),
    Seed("replace visits only direct text", "fault", _EL, '        for text in self.xpath("descendant::text()"):', '        for text in self.xpath("text()"):', "R16a"),
    Seed("early exit decided on the joined text", "fault", _EL,
         "        cpattern = re.compile(pattern)\n        count = 0\n",
         "        cpattern = re.compile(pattern)\n        if cpattern.search(self.text_recursive) is None:\n            return 0\n        count = 0\n", "R16a"),
    Seed("white space re-encoded inside the loop again", "fault", _EL,
         "                    to_format[id(container.__element)] = container\n", "                    container.append_plain_text(\"\")  # type; ignore\n", "R16f"),
    Seed("write-back slots swapped", "fault", _EL,
         "                if text.is_text():  # type: ignore\n                    container.text = new_text  # type: ignore\n                else:\n                    container.tail = new_text  # type: ignore",
         "                if text.is_text():  # type: ignore\n                    container.tail = new_text  # type: ignore\n                else:\n                    container.text = new_text  # type: ignore", "R16b"),
    Seed("tail always written", "fault", _EL,
         "                if text.is_text():  # type: ignore\n                    container.text = new_text  # type: ignore\n                else:\n                    container.tail = new_text  # type: ignore",
         "                container.text = new_text  # type: ignore", "R16b"),
    Seed("count adds one per node", "fault", _EL, "                count += number\n", "                count += 1\n", "R16b"),
    Seed("formatted gate forgets spans", "fault", _EL, '                    "text:p",\n                    "text:span",\n                }:', '                    "text:p",\n                }:', "R16c"),
    Seed("formatted gate includes links", "fault", _EL, '                    "text:p",\n                    "text:span",\n                }:', '                    "text:p",\n                    "text:span",\n                    "text:a",\n                }:', "R16c"),
    Seed("normalisation not gated by formatted", "fault", _EL, "                if formatted and container.tag in {  # type; ignore", "                if container.tag in {  # type; ignore", "R16c"),
    Seed("search_all reads inner_text", "fault", _EL, "        for match in re.finditer(pattern, self.text_recursive):", "        for match in re.finditer(pattern, self.inner_text):", "R16d"),
    Seed("text_at reads inner_text", "fault", _EL, "            return self.text_recursive[start:end]", "            return self.inner_text[start:end]", "R16d"),
    Seed("script swaps pattern and replacement", "fault", "src/odfdo/scripts/replace.py",
         "    body.replace(pattern, replacement, formatted)", "    body.replace(replacement, pattern, formatted)", "R16e"),
    unparse_seed(_EL), unparse_seed("src/odfdo/scripts/replace.py"),
]
