"""C19 — all ways of addressing cells agree (structural clauses).

R19a  axis discipline: x-components feed column ranges / widths, y-components feed row ranges / heights
R19b  named-range address writer quotes every delimiter its reader splits on; reader unquotes before splitting
R19c  table rename updates the named ranges while the old name is still readable
R19d  every public coordinate-taking method goes through the one coordinate parser
"""

from __future__ import annotations

import ast

from ..core import UNKNOWN, AnalysisError, ancestors, ClassInfo, FuncInfo, body_no_doc, call_name, get_arg, is_self_attr, norm, walk_no_nested
from ..paths import canon, cfg_of, node_of, structural_guards
from ..strflow import parts

EXPLANATION = (
    "Axis typing by abstract interpretation of Table, Row and NamedRange methods: every integer derived from a "
    "coordinate is tagged with its axis (x: columns/width, y: rows/height) from the position it is unpacked from "
    "(x, y, z, t -> x, y, x, y), from the translating helper that produced it, or from the length it is combined with; "
    "every sink (traverse/traverse_columns ranges, row/column/cell addressed calls, increment, comparisons with "
    "width/height, coordinate stamps, digit_to_alpha) checks the axis. Delimiter tables of the named-range address "
    "writer and reader are extracted and compared; the rename order is a dominance query; reachability of the parser "
    "is a call-graph query. The letters<->numbers bijection and convert_coordinates parsing are not decided."
)
ASSUMPTIONS = [
    "coordinate tuples are (x, y) / (x, y, z, t) with x,z columns and y,t rows, as documented by the API",
    "ODF cell-range-address grammar: table name quoted with ' when it contains characters other than letters/digits/_",
]

XAX, YAX = "x", "y"

# callee name -> {arg position or keyword: axis}; receiver class decides where a name is ambiguous
TABLE_SINKS = {
    "traverse_columns": {0: XAX, 1: XAX, "start": XAX, "end": XAX},
    "_get_row2": {0: YAX, "y": YAX}, "_get_row2_base": {0: YAX, "y": YAX}, "get_row": {0: YAX, "y": YAX},
    "set_row": {0: YAX, "y": YAX}, "insert_row": {0: YAX, "y": YAX}, "delete_row": {0: YAX, "y": YAX},
    "_translate_y_from_any": {0: YAX}, "_translate_x_from_any": {0: XAX},
    "get_column": {0: XAX, "x": XAX}, "_get_column2": {0: XAX, "x": XAX}, "set_column": {0: XAX, "x": XAX},
    "insert_column": {0: XAX, "x": XAX}, "delete_column": {0: XAX, "x": XAX}, "get_column_cells": {0: XAX, "x": XAX},
    "get_row_values": {0: YAX}, "set_row_values": {0: YAX}, "set_row_cells": {0: YAX}, "is_row_empty": {0: YAX},
    "append_cell": {0: YAX, "y": YAX},
    "digit_to_alpha": {0: XAX},
}
ROW_SINKS = {
    "get_cell": {0: XAX, "x": XAX}, "_get_cell2": {0: XAX, "x": XAX}, "_get_cell2_base": {0: XAX, "x": XAX},
    "set_cell": {0: XAX, "x": XAX}, "insert_cell": {0: XAX, "x": XAX}, "delete_cell": {0: XAX, "x": XAX},
    "get_value": {0: XAX, "x": XAX}, "set_value": {0: XAX, "x": XAX},
    "traverse": {0: XAX, 1: XAX, "start": XAX, "end": XAX},
}
TABLE_TRAVERSE = {0: YAX, 1: YAX, "start": YAX, "end": YAX}
MAP_AXIS = {"_tmap": YAX, "_cmap": XAX, "_rmap": XAX}
UNPACK4 = {"_translate_table_coordinates", "_translate_table_coordinates_str", "_translate_table_coordinates_list",
           "_translate_column_coordinates", "_translate_column_coordinates_str", "_translate_column_coordinates_list",
           "convert_coordinates"}


class Axis:
    """Flow-insensitive axis inference for the locals of one function."""

    def __init__(self, f: FuncInfo, in_row: bool):
        self.f = f
        self.in_row = in_row  # methods of Row: self.width is x, there is no y length
        self.ax: dict[str, set[str]] = {}
        self.rowvars: set[str] = set()  # locals holding Row objects
        self.attr_tuple: dict[str, tuple] = {}
        self._collect()

    # -- expression axis -------------------------------------------------
    def of(self, e: ast.expr | None, depth: int = 0) -> str | None:
        if e is None or depth > 6:
            return None
        if isinstance(e, ast.Name):
            s = self.ax.get(e.id)
            if s and len(s) == 1:
                return next(iter(s))
            return None
        if isinstance(e, ast.Attribute):
            if e.attr == "width":
                return XAX
            if e.attr == "height":
                return YAX
            if e.attr == "x" and not is_self_attr(e):
                return XAX
            if e.attr == "y":
                return YAX
            return None
        if isinstance(e, ast.BinOp) and isinstance(e.op, (ast.Add, ast.Sub)):
            a, b = self.of(e.left, depth + 1), self.of(e.right, depth + 1)
            return a or b
        if isinstance(e, ast.Call):
            nm = call_name(e)
            if nm in ("min", "max") and e.args:
                for a in e.args:
                    r = self.of(a, depth + 1)
                    if r:
                        return r
                return None
            if nm == "_translate_x_from_any" or nm == "alpha_to_digit":
                return XAX
            if nm == "_translate_y_from_any":
                return YAX
            if nm == "increment" and len(e.args) == 2:
                return self.of(e.args[1], depth + 1) or self.of(e.args[0], depth + 1)
            if nm == "translate_from_any" and len(e.args) == 3:
                return self.of(e.args[1], depth + 1)
            if nm == "len" and e.args and isinstance(e.args[0], ast.Attribute) and e.args[0].attr in MAP_AXIS:
                return None
            return None
        if isinstance(e, ast.Subscript) and isinstance(e.value, ast.Attribute) and e.value.attr in ("start", "end") \
                and isinstance(e.slice, ast.Constant) and e.slice.value in (0, 1):
            return XAX if e.slice.value == 0 else YAX
        if isinstance(e, ast.IfExp):
            return self.of(e.body, depth + 1) or self.of(e.orelse, depth + 1)
        return None

    def mixed(self, e: ast.expr, depth: int = 0) -> bool:
        """True when e combines both axes arithmetically."""
        if isinstance(e, ast.BinOp) and isinstance(e.op, (ast.Add, ast.Sub)):
            a, b = self.of(e.left), self.of(e.right)
            if a and b and a != b:
                return True
            return self.mixed(e.left, depth + 1) or self.mixed(e.right, depth + 1)
        if isinstance(e, ast.Call) and call_name(e) in ("min", "max"):
            axes = {self.of(a) for a in e.args} - {None}
            return len(axes) > 1
        return False

    def _tag(self, name: str, ax: str | None):
        if ax:
            self.ax.setdefault(name, set()).add(ax)

    def _collect(self):
        f = self.f
        for _ in range(3):  # small fixpoint for chains of assignments
            for n in walk_no_nested(f.node):
                if isinstance(n, ast.Assign):
                    for t in n.targets:
                        self._assign(t, n.value)
                elif isinstance(n, ast.AnnAssign) and n.value is not None:
                    self._assign(n.target, n.value)
                elif isinstance(n, ast.AugAssign) and isinstance(n.target, ast.Name):
                    self._tag(n.target.id, self.of(n.value))
                elif isinstance(n, ast.For):
                    self._for(n)
                elif isinstance(n, ast.Call):
                    # inference by use: increment(v, L)
                    if call_name(n) == "increment" and len(n.args) == 2 and isinstance(n.args[0], ast.Name):
                        self._tag(n.args[0].id, self.of(n.args[1]))

    def _assign(self, t, v):
        if isinstance(t, ast.Name):
            self._tag(t.id, self.of(v))
            if isinstance(v, ast.Call) and call_name(v) in ("_get_row2", "_get_row2_base", "get_row", "Row") :
                self.rowvars.add(t.id)
            if isinstance(v, ast.Name) and v.id in self.rowvars:
                self.rowvars.add(t.id)
            if isinstance(v, ast.Attribute) and v.attr == "clone" and isinstance(v.value, ast.Name) and v.value.id in self.rowvars:
                self.rowvars.add(t.id)
            return
        if isinstance(t, (ast.Tuple, ast.List)):
            names = [e.id if isinstance(e, ast.Name) else None for e in t.elts]
            src = v
            if isinstance(v, (ast.Tuple, ast.List)) and len(v.elts) == len(names):
                for nm, e in zip(names, v.elts):
                    if nm:
                        self._tag(nm, self.of(e))
                return
            cn = call_name(v) if isinstance(v, ast.Call) else None
            # a parameter holding coordinates, or a local that is the result of the coordinate parser
            is_coord_var = isinstance(v, ast.Name) and (v.id in ("coord", "coordinates", "xyzt") or canon(self.f, v).startswith(("convert_coordinates(", "self._translate_")))
            if len(names) == 4 and (cn in UNPACK4 or is_coord_var):
                for nm, ax in zip(names, (XAX, YAX, XAX, YAX)):
                    if nm:
                        self._tag(nm, ax)
            elif len(names) == 2 and cn == "_translate_cell_coordinates":
                for nm, ax in zip(names, (XAX, YAX)):
                    if nm:
                        self._tag(nm, ax)
            elif len(names) == 2 and cn == "_translate_row_coordinates":
                for nm in names:
                    if nm:
                        self._tag(nm, XAX)
            elif len(names) == 2 and (is_coord_var or cn == "convert_coordinates"):
                # (x, y) of a cell — unless we are in a row context (x, z)
                axes = (XAX, XAX) if self.in_row else (XAX, YAX)
                for nm, ax in zip(names, axes):
                    if nm:
                        self._tag(nm, ax)
            elif len(names) == 2 and isinstance(v, ast.Attribute) and v.attr in ("size",):
                # Table.size is (width, height): the axes of the two components are read off its getter
                axes = (XAX, YAX)
                g = self.f.cls.lookup("size", "getter") if self.f.cls is not None else None
                if g is not None:
                    rets = [r.value for r in walk_no_nested(g.node) if isinstance(r, ast.Return) and isinstance(r.value, ast.Tuple) and len(r.value.elts) == 2]
                    if rets:
                        got = tuple(self.of(e) for e in rets[0].elts)
                        if all(got):
                            axes = got
                for nm, ax in zip(names, axes):
                    if nm:
                        self._tag(nm, ax)
        # self.start = x, y
        if isinstance(t, ast.Attribute) and is_self_attr(t) and isinstance(v, ast.Tuple):
            self.attr_tuple[t.attr] = tuple(self.of(e) for e in v.elts)

    def _for(self, n: ast.For):
        it = n.iter
        tgt = n.target
        # for y, row in enumerate(self.traverse())  /  for row in self.traverse()/self._get_rows()
        inner = it
        idx_name = None
        if isinstance(it, ast.Call) and call_name(it) == "enumerate" and it.args and isinstance(tgt, ast.Tuple) and len(tgt.elts) == 2:
            inner = it.args[0]
            if isinstance(tgt.elts[0], ast.Name):
                idx_name = tgt.elts[0].id
            tgt = tgt.elts[1]
        while isinstance(inner, ast.Call) and call_name(inner) in ("reversed", "list", "iter"):
            inner = inner.args[0] if inner.args else inner
            if not isinstance(inner, ast.Call):
                break
        if isinstance(inner, ast.Call):
            cn = call_name(inner)
            recv_self = isinstance(inner.func, ast.Attribute) and isinstance(inner.func.value, ast.Name) and inner.func.value.id in ("self", "table")
            if cn in ("traverse", "_get_rows", "_yield_odf_rows", "get_rows") and recv_self and not self.in_row:
                if isinstance(tgt, ast.Name):
                    self.rowvars.add(tgt.id)
                if idx_name:
                    self._tag(idx_name, YAX)
            elif cn in ("traverse_columns", "_get_columns", "get_columns") and idx_name:
                self._tag(idx_name, XAX)
            elif cn == "traverse" and (self.in_row or (isinstance(inner.func, ast.Attribute) and isinstance(inner.func.value, ast.Name)
                                                       and inner.func.value.id in self.rowvars)):
                if idx_name:
                    self._tag(idx_name, XAX)
            elif cn == "range" and isinstance(tgt, ast.Name):
                for a in inner.args:
                    self._tag(tgt.id, self.of(a))


def _recv_kind(ax: Axis, c: ast.Call) -> str | None:
    f = c.func
    if not isinstance(f, ast.Attribute):
        return None
    v = f.value
    if isinstance(v, ast.Name):
        if v.id == "self":
            return "row" if ax.in_row else "table"
        if v.id in ax.rowvars or v.id in ("row", "odf_row", "row_read", "row_back"):
            return "row"
        if v.id == "table":
            return "table"
    if isinstance(v, ast.Call) and call_name(v) in ("get_row", "_get_row2", "_get_row2_base"):
        return "row"
    return None


def r19a(ctx):
    repo = ctx.repo
    ctx.rule("R19a", "x-components feed column ranges/widths, y-components feed row ranges/heights", floor=150)
    table, row, nr = repo.cls("Table"), repo.cls("Row"), repo.cls("NamedRange")
    unresolved = 0
    for c, in_row in ((table, False), (row, True), (nr, False)):
        for fs in c.methods.values():
            for f in fs:
                ax = Axis(f, in_row)
                where = f"{f.file}:{f.ident}"
                # conflicting definitions of one variable
                for nm, s in sorted(ax.ax.items()):
                    if len(s) > 1:
                        ctx.instance("R19a", where, f"variable {nm} keeps one axis", ok=False)
                        ctx.report("R19a", f, f.node, f"variable {nm} is both an x and a y quantity",
                                   f"local {nm!r} receives a column quantity on one assignment and a row quantity on another")

                def need(expr, want, what, node):
                    nonlocal unresolved
                    if expr is None or (isinstance(expr, ast.Constant)):
                        return
                    got = ax.of(expr)
                    if got is None:
                        unresolved += 1
                        return
                    ok = got == want
                    ctx.instance("R19a", where, f"{what}: {norm(expr, 30)} is {got}, must be {want}", ok=ok, nontrivial=True, line=node.lineno)
                    if not ok:
                        ctx.report("R19a", f, node, f"{what}: {norm(expr, 40)}",
                                   f"{what} receives {norm(expr, 40)!r}, a {'row' if got == YAX else 'column'} quantity, where a "
                                   f"{'row' if want == YAX else 'column'} quantity is required")

                for n in walk_no_nested(f.node):
                    if isinstance(n, ast.Call):
                        cn = call_name(n)
                        kind = _recv_kind(ax, n)
                        spec = None
                        if cn == "traverse" and kind == "table":
                            spec = TABLE_TRAVERSE
                        elif kind == "row" and cn in ROW_SINKS:
                            spec = ROW_SINKS[cn]
                        elif kind == "table" and cn in TABLE_SINKS:
                            spec = TABLE_SINKS[cn]
                        elif cn == "digit_to_alpha":
                            spec = TABLE_SINKS[cn]
                        if spec:
                            for i, a in enumerate(n.args):
                                if i in spec and not isinstance(a, ast.Starred):
                                    need(a, spec[i], f"{cn}() argument {i}", n)
                            for k in n.keywords:
                                if k.arg in spec:
                                    need(k.value, spec[k.arg], f"{cn}({k.arg}=)", n)
                        # row.get_cells(coord=(a, b)) / row.get_values((a, b))
                        if kind == "row" and cn in ("get_cells", "get_values"):
                            tup = get_arg(n, 0, "coord")
                            if isinstance(tup, ast.Tuple):
                                for e in tup.elts:
                                    need(e, XAX, f"row.{cn}() range bound", n)
                        if cn == "increment" and len(n.args) == 2:
                            a0, a1 = ax.of(n.args[0]), ax.of(n.args[1])
                            if a1 is not None:
                                need(n.args[0], a1, "increment() value paired with that length", n)
                        if cn == "translate_from_any" and len(n.args) == 3:
                            idx = repo.fold(n.args[2], f.module)
                            la = ax.of(n.args[1])
                            if la is not None and idx in (0, 1):
                                ok = (idx == 0) == (la == XAX)
                                ctx.instance("R19a", where, f"translate_from_any(…, {norm(n.args[1], 20)}, {idx})", ok=ok, nontrivial=True, line=n.lineno)
                                if not ok:
                                    ctx.report("R19a", f, n, n, "component index and length of translate_from_any belong to different axes")
                        if cn == "find_odf_idx" and len(n.args) == 2 and isinstance(n.args[0], ast.Attribute) and n.args[0].attr in MAP_AXIS:
                            need(n.args[1], MAP_AXIS[n.args[0].attr], f"find_odf_idx({n.args[0].attr}, …)", n)
                    elif isinstance(n, ast.Compare) and len(n.ops) == 1:
                        l, r = ax.of(n.left), ax.of(n.comparators[0])
                        if l and r and f.name != "transpose" and isinstance(n.ops[0], (ast.Lt, ast.LtE, ast.Gt, ast.GtE, ast.Eq, ast.NotEq)):
                            ok = l == r
                            ctx.instance("R19a", where, f"comparison {norm(n, 40)} within one axis", ok=ok, line=n.lineno)
                            if not ok:
                                ctx.report("R19a", f, n, n, "a column quantity is compared with a row quantity")
                    elif isinstance(n, ast.Assign):
                        for t in n.targets:
                            if isinstance(t, ast.Attribute) and t.attr in ("x", "y") and not is_self_attr(t):
                                need(n.value, XAX if t.attr == "x" else YAX, f"coordinate stamp .{t.attr}", n)
                            if isinstance(t, ast.Attribute) and is_self_attr(t) and t.attr in ("x", "y") and False:
                                pass
                        if ax.mixed(n.value) and f.name != "transpose":
                            ctx.instance("R19a", where, f"{norm(n, 50)} stays on one axis", ok=False, line=n.lineno)
                            ctx.report("R19a", f, n, n, "an expression adds or compares a column quantity with a row quantity")
                    elif isinstance(n, ast.Return) and isinstance(n.value, ast.Tuple) and f.name.startswith("_translate_"):
                        elts = n.value.elts
                        want = {4: (XAX, YAX, XAX, YAX), 2: (XAX, XAX) if in_row else (XAX, YAX)}.get(len(elts))
                        if want:
                            for e, w in zip(elts, want):
                                need(e, w, f"{f.name}() result component", n)
                # the transposed rectangle
                if f.name == "transpose" and c is table:
                    for n in walk_no_nested(f.node):
                        if isinstance(n, ast.Call) and call_name(n) == "set_cells" and len(n.args) >= 2 and isinstance(n.args[1], ast.Tuple) \
                                and len(n.args[1].elts) == 4:
                            e = n.args[1].elts
                            def cnt(expr):
                                return {ax.of(ast.Name(id=x.id, ctx=ast.Load())) if False else _count_axis(f, x.id) for x in ast.walk(expr) if isinstance(x, ast.Name)} - {None}
                            ok = ax.of(e[0]) == XAX and ax.of(e[1]) == YAX and _base_axis(ax, e[2]) == XAX and _base_axis(ax, e[3]) == YAX \
                                and YAX in cnt(e[2]) and XAX in cnt(e[3])
                            ctx.instance("R19a", where, f"transposed rectangle {norm(n.args[1], 50)} = (x, y, x+h-1, y+w-1)", ok=ok, nontrivial=True, line=n.lineno)
                            if not ok:
                                ctx.report("R19a", f, n, n.args[1], "the area written back by transpose(coord) is not the transposed rectangle (x, y, x+h-1, y+w-1)")
    ctx.extra["axis_unresolved_sink_arguments"] = unresolved


def _count_axis(f: FuncInfo, name: str) -> str | None:
    """axis of a count variable defined as <a> - <b> + 1 (w = z - x + 1 -> x; h = t - y + 1 -> y)."""
    ax = Axis(f, False)
    for n in walk_no_nested(f.node):
        if isinstance(n, ast.Assign) and isinstance(n.targets[0], ast.Name) and n.targets[0].id == name:
            return ax.of(n.value)
    return None


def _base_axis(ax: Axis, e: ast.expr) -> str | None:
    cur = e
    while isinstance(cur, ast.BinOp):
        cur = cur.left
    return ax.of(cur)


# ------------------------------------------------------------------ R19b
def r19b(ctx):
    repo = ctx.repo
    ctx.rule("R19b", "named-range address: the writer quotes every delimiter the reader splits on; the reader unquotes before splitting", floor=3)
    init = repo.func("NamedRange.__init__")
    # reader: delimiters removed/split on before the table name is isolated
    reader_delims: list[tuple[str, str, int]] = []
    unquote_line = None
    for n in walk_no_nested(init.node):
        if isinstance(n, ast.Call) and isinstance(n.func, ast.Attribute) and n.func.attr in ("split", "replace", "partition", "rpartition") \
                and n.args and isinstance(n.args[0], ast.Constant) and isinstance(n.args[0].value, str):
            reader_delims.append((n.func.attr, n.args[0].value, n.lineno))
        if isinstance(n, ast.If) and "startswith" in ast.unparse(n.test) and "'" in ast.unparse(n.test):
            unquote_line = n.lineno
    if not reader_delims:
        raise AnalysisError("R19b: reader of table:cell-range-address not found in NamedRange.__init__")
    first_split = min((ln for k, d, ln in reader_delims if k in ("split", "partition", "rpartition")), default=None)
    name_delims = {d for k, d, ln in reader_delims if first_split is None or ln <= first_split}
    for wq in ("NamedRange._make_base_cell_address", "NamedRange._make_cell_range_address"):
        w = repo.func(wq)
        quoted_when: set[str] = set()
        quotes = False
        for n in walk_no_nested(w.node):
            if isinstance(n, ast.If):
                for cmp_ in ast.walk(n.test):
                    if isinstance(cmp_, ast.Compare) and isinstance(cmp_.ops[0], ast.In) and isinstance(cmp_.left, ast.Constant) \
                            and "table_name" in ast.unparse(cmp_.comparators[0]):
                        quoted_when.add(cmp_.left.value)
                    if isinstance(cmp_, ast.Call) and call_name(cmp_) in ("search", "match", "fullmatch", "isalnum", "isidentifier", "_needs_quotes"):
                        quoted_when.add("<pattern>")
                for s in n.body:
                    if any(isinstance(x, ast.JoinedStr) and any(isinstance(v, ast.Constant) and "'" in str(v.value) for v in x.values) for x in ast.walk(s)):
                        quotes = True
        always = not quoted_when and any(isinstance(x, ast.JoinedStr) and any(isinstance(v, ast.Constant) and "'" in str(v.value) for v in x.values)
                                         for x in ast.walk(w.node))
        missing = sorted(d for d in name_delims if d not in quoted_when) if not (always or "<pattern>" in quoted_when) else []
        ok = (quotes or always) and not missing
        ctx.instance("R19b", f"{w.file}:{w.ident}", f"quotes the table name when it contains {sorted(quoted_when) or 'always'}; reader splits on {sorted(name_delims)}",
                     ok=ok, nontrivial=True, line=w.node.lineno)
        if not ok:
            ctx.report("R19b", w, w.node, f"table name quoted only for {sorted(quoted_when)}; reader splits on {sorted(name_delims)}",
                       f"a table name containing {missing or sorted(name_delims)} is written unquoted, but the reader removes/splits on "
                       f"{sorted(name_delims)} before isolating the name: the address does not parse back to the same table name")
    ok = unquote_line is not None and (first_split is None or unquote_line < first_split)
    ctx.instance("R19b", f"{init.file}:{init.ident}", "reader isolates a quoted table name before splitting on '.'", ok=ok, nontrivial=True)
    if not ok:
        ctx.report("R19b", init, init.node, "split('.') before unquoting",
                   "the reader splits the address on the first '.' (and removes '$') before looking for the quoted table name: "
                   "a quoted name containing '.' or '$' is cut in the middle")


# ------------------------------------------------------------------ R19c
def r19c(ctx):
    repo = ctx.repo
    ctx.rule("R19c", "Table.name setter: validate, then update named ranges, then overwrite the name", floor=2)
    f = repo.func("Table.name", "setter")
    cfg = cfg_of(f)
    check = [n for n in walk_no_nested(f.node) if isinstance(n, ast.Call) and call_name(n) == "_table_name_check"]
    loop = [n for n in walk_no_nested(f.node) if isinstance(n, ast.For) and "get_named_ranges" in ast.unparse(n.iter)]
    seta = [n for n in walk_no_nested(f.node) if isinstance(n, ast.Call) and call_name(n) == "set_attribute" and n.args
            and repo.fold(n.args[0], f.module) == "table:name"]
    if not seta:
        raise AnalysisError("R19c: set_attribute('table:name') not found")
    ok1 = bool(loop) and cfg.dominates(node_of(cfg, loop[0]), node_of(cfg, seta[0])) and "self.name" in ast.unparse(loop[0].iter) \
        and any(call_name(c) == "set_table_name" for c in ast.walk(loop[0]) if isinstance(c, ast.Call))
    ctx.instance("R19c", f"{f.file}:{f.ident}", "named ranges of the old name are retargeted before the attribute is overwritten", ok=ok1, nontrivial=True)
    if not ok1:
        ctx.report("R19c", f, seta[0], "set_attribute('table:name', …) before the named-range loop",
                   "the table name is overwritten before (or without) retargeting the named ranges that point to the old name")
    ok2 = bool(check) and all(cfg.dominates(node_of(cfg, check[0]), node_of(cfg, x)) for x in loop + seta)
    ctx.instance("R19c", f"{f.file}:{f.ident}", "the new name is validated before anything is changed", ok=ok2, nontrivial=True)
    if not ok2:
        ctx.report("R19c", f, f.node, "validation after mutation", "the new table name is not validated before named ranges / the attribute are changed")


# ------------------------------------------------------------------ R19d
PARSERS = {"convert_coordinates", "translate_from_any", "_translate_x_from_any", "_translate_y_from_any", "_translate_cell_coordinates",
           "_translate_table_coordinates", "_translate_column_coordinates", "_translate_row_coordinates"}


def r19d(ctx):
    repo = ctx.repo
    ctx.rule("R19d", "public coordinate-taking methods reach the coordinate parser before using the value", floor=30)
    table, row, nr = repo.cls("Table"), repo.cls("Row"), repo.cls("NamedRange")
    COORD_PARAMS = {"coord", "area", "x", "y", "crange", "start"}
    memo: dict[tuple[int, str], bool] = {}

    def callee(f: FuncInfo, n: ast.Call) -> FuncInfo | None:
        cn = call_name(n)
        if isinstance(n.func, ast.Name):
            r = repo.resolve_name(cn, f.module)
            if isinstance(r, ClassInfo):
                return r.lookup("__init__")
            if isinstance(r, FuncInfo):
                return r
            return None
        for c in ([f.cls] if f.cls else []) + [table, row, nr]:
            g = c.lookup(cn) if c else None
            if g is not None:
                return g
        return None

    def reaches(f: FuncInfo, p: str, depth: int = 0) -> bool:
        key = (id(f.node), p)
        if key in memo:
            return memo[key]
        memo[key] = False
        if depth > 6:
            return False
        res = False
        for n in walk_no_nested(f.node):
            if not isinstance(n, ast.Call):
                continue
            passes: list = [i for i, a in enumerate(n.args) if isinstance(a, ast.Name) and a.id == p] + \
                           [k.arg for k in n.keywords if isinstance(k.value, ast.Name) and k.value.id == p and k.arg]
            in_tuple = any(isinstance(a, ast.Tuple) and any(isinstance(x, ast.Name) and x.id == p for x in a.elts)
                           for a in list(n.args) + [k.value for k in n.keywords])
            if not passes and not in_tuple:
                continue
            if call_name(n) in PARSERS:
                res = True
                break
            g = callee(f, n)
            if g is None or g is f:
                continue
            if in_tuple:
                res = True  # packed into a coordinate tuple handed to another API method
                break
            off = 1 if (g.cls is not None and g.kind not in ("static", "function", "nested")) else 0
            for pos in passes:
                gp = g.params[pos + off] if isinstance(pos, int) and pos + off < len(g.params) else (pos if pos in g.params else None)
                if gp and reaches(g, gp, depth + 1):
                    res = True
            if res:
                break
        memo[key] = res
        return res

    for c in (table, row, nr):
        for name, fs in sorted(c.methods.items()):
            f = fs[0]
            if name.startswith("_") or f.kind in ("getter", "setter", "static"):
                continue
            for a in f.all_params():
                if a.arg not in COORD_PARAMS or a.arg == "self":
                    continue
                ann = ast.unparse(a.annotation) if a.annotation is not None else ""
                if not ("str" in ann and ("int" in ann or "tuple" in ann or "list" in ann)):
                    continue
                ok = reaches(f, a.arg)
                ctx.instance("R19d", f"{f.file}:{c.name}.{name}", f"parameter {a.arg}: {ann} reaches the coordinate parser", ok=ok, nontrivial=True, line=f.node.lineno)
                if not ok:
                    ctx.report("R19d", f, f.node, f"{c.name}.{name}({a.arg}) bypasses the coordinate parser",
                               f"public method {c.name}.{name} accepts {a.arg}: {ann} but never hands it to convert_coordinates/translate_from_any: "
                               f"string and negative forms are not normalised like everywhere else")


# ------------------------------------------------------------------ R19e
def r19e(ctx):
    """Column letters <-> numbers: the two conversions use the same base and inverse offsets."""
    repo = ctx.repo
    ctx.rule("R19e", "alpha_to_digit and digit_to_alpha use one base (26), inverse offsets and the same unbounded domain", floor=6)
    a2d = repo.func("utils.coordinates:alpha_to_digit")
    d2a = repo.func("utils.coordinates:digit_to_alpha")

    def ints(f):
        return sorted(n.value for n in walk_no_nested(f.node) if isinstance(n, ast.Constant) and isinstance(n.value, int) and not isinstance(n.value, bool))

    ia, idg = ints(a2d), ints(d2a)
    mul = [n for n in walk_no_nested(a2d.node) if isinstance(n, ast.BinOp) and isinstance(n.op, ast.Mult)]
    ok = len(mul) == 1 and repo.fold(mul[0].right, a2d.module) == 26 and ia.count(26) == 1
    ctx.instance("R19e", f"{a2d.file}:{a2d.ident}", f"accumulates column * 26 + v (constants {ia})", ok=ok, nontrivial=True)
    if not ok:
        ctx.report("R19e", a2d, a2d.node, f"alpha_to_digit constants {ia}", "alpha_to_digit does not accumulate in base 26")
    mods = [n for n in walk_no_nested(d2a.node) if isinstance(n, ast.BinOp) and isinstance(n.op, (ast.Mod, ast.FloorDiv))]
    ok = len(mods) == 2 and all(repo.fold(n.right, d2a.module) == 26 for n in mods) and {type(n.op) for n in mods} == {ast.Mod, ast.FloorDiv} \
        and all(ast.unparse(n.left).replace(" ", "") in ("digit-1", "(digit-1)") for n in mods)
    ctx.instance("R19e", f"{d2a.file}:{d2a.ident}", f"peels (digit - 1) % 26 and (digit - 1) // 26 (constants {idg})", ok=ok, nontrivial=True)
    if not ok:
        ctx.report("R19e", d2a, d2a.node, f"digit_to_alpha constants {idg}", "digit_to_alpha does not peel digits with (digit - 1) % 26 and (digit - 1) // 26 (bijective base 26)")
    # offsets: parser: ord(c) - ord('a') + 1 on lower-cased input, result - 1 ; printer: digit += 1, chr(65 + …)
    from ..shape import has
    ok = has(a2d.node, "ord(C_) - ord('a') + 1") and has(a2d.node, "for C_ in A_.lower():\n    REST_") and has(a2d.node, "return X_ - 1") \
        and has(a2d.node, "X_ = X_ * 26 + V_")
    ctx.instance("R19e", f"{a2d.file}:{a2d.ident}", "digits a..z ↦ 1..26 on lower-cased input, result shifted to 0-based", ok=ok, nontrivial=True)
    if not ok:
        ctx.report("R19e", a2d, a2d.node, "alpha_to_digit offsets", "letter values / zero-based shift of alpha_to_digit changed")
    ok = has(d2a.node, "D_ += 1") and (has(d2a.node, "C_ = chr(65 + (D_ - 1) % 26) + C_") or has(d2a.node, "C_ = chr(ord('A') + (D_ - 1) % 26) + C_"))
    ctx.instance("R19e", f"{d2a.file}:{d2a.ident}", "1-based shift, 'A' + remainder, most significant letter first", ok=ok, nontrivial=True)
    if not ok:
        ctx.report("R19e", d2a, d2a.node, "digit_to_alpha offsets", "digit_to_alpha no longer shifts to 1-based, maps remainders to 'A'.. and prepends letters")
    # same domain on both sides: the printer writes a name for every non-negative number (no upper bound), so the parser may refuse a name only for
    # what it is made of, never for how long it is or how large the number gets (and the reverse)
    for f in (a2d, d2a):
        bounded = []
        for st in walk_no_nested(f.node):
            if isinstance(st, ast.Raise) or isinstance(st, ast.Return) and isinstance(st.value, ast.Constant) and st.value.value is None:
                for t, _pol in structural_guards(st, stop=f.node):
                    for x in ast.walk(t):
                        if isinstance(x, ast.Call) and call_name(x) == "len" or isinstance(x, ast.Compare) and any(isinstance(o, (ast.Lt, ast.LtE, ast.Gt, ast.GtE)) for o in x.ops):
                            bounded.append((st, t))
        ctx.instance("R19e", f"{f.file}:{f.ident}", "refuses a value only for its kind, not for its length or magnitude", ok=not bounded, nontrivial=True, line=f.node.lineno)
        for st, t in bounded[:1]:
            other = d2a if f is a2d else a2d
            ctx.report("R19e", f, st, f"{f.name} refuses under `{norm(t, 50)}`",
                       f"{f.name} refuses values by length/magnitude (`{norm(t, 50)}`) while {other.name} has no such bound: a column that one direction produces "
                       f"(digit_to_alpha(18278) == 'AAAA') is rejected by the other, so letters and numbers are no longer a bijection")
    # convert_coordinates: rows are 1-based in strings
    cc = repo.func("utils.coordinates:convert_coordinates")
    ok = has(cc.node, "L_ = int(C_[len(A_):]) - 1") and has(cc.node, "O_.split(':', 1)")
    ctx.instance("R19e", f"{cc.file}:{cc.ident}", "row number parsed as int(...) - 1; range split on the first ':'", ok=ok, nontrivial=True)
    if not ok:
        ctx.report("R19e", cc, cc.node, "convert_coordinates row offset", "row numbers in 'A1' notation are 1-based: the parser must subtract one; ranges split on ':'")
    tf = repo.func("utils.coordinates:translate_from_any")
    ok = has(tf.node, "V_ = convert_coordinates(X_)[I_]") and has(tf.node, "if V_ < 0:\n    return increment(V_, L_)")
    ctx.instance("R19e", f"{tf.file}:{tf.ident}", "string form parsed by convert_coordinates, negatives wrapped by increment(value, length)", ok=ok, nontrivial=True)
    if not ok:
        ctx.report("R19e", tf, tf.node, "translate_from_any", "translate_from_any no longer parses strings with convert_coordinates / wraps negatives with the length")
    inc = repo.func("utils.coordinates:increment")
    ok = has(inc.node, "while V_ < 0:\n    REST_") and has(inc.node, "V_ += S_")
    ctx.instance("R19e", f"{inc.file}:{inc.ident}", "negative values are wrapped by adding the length until non-negative", ok=ok)
    if not ok:
        ctx.report("R19e", inc, inc.node, "increment", "increment no longer adds the length until the value is non-negative")


_FIXTURE_F = '''
def bad(self, table_name: str | list[str] | None = None):
    return [nr for nr in self.all() if nr.table_name in table_name]
def ok_narrowed(self, table_name: str | list[str] | None = None):
    if isinstance(table_name, str):
        table_name = [table_name]
    return [nr for nr in self.all() if nr.table_name in table_name]
def ok_literal(qname: str):
    return ":" in qname
'''


def _substring_tests(fn: ast.AST) -> list[ast.Compare]:
    """`value in P` / `value not in P` where P is a parameter that may be a bare str and `value` is not a literal:
    Python then tests for a substring, not for membership."""
    params = {a.arg: a for a in fn.args.posonlyargs + fn.args.args + fn.args.kwonlyargs}

    def may_be_str(a: ast.arg) -> bool:
        if a.annotation is None:
            return False
        parts_ = [x.strip() for x in ast.unparse(a.annotation).replace("Optional[", "").split("|")]
        return "str" in parts_

    # a parameter re-bound to a collection (or narrowed away from str) anywhere in the function is no longer the raw argument
    rebound = {t.id for n in ast.walk(fn) if isinstance(n, (ast.Assign, ast.AugAssign, ast.AnnAssign)) for t in ast.walk(n) if isinstance(t, ast.Name) and isinstance(t.ctx, ast.Store)}
    out = []
    for n in ast.walk(fn):
        if isinstance(n, ast.Compare) and len(n.ops) == 1 and isinstance(n.ops[0], (ast.In, ast.NotIn)) and isinstance(n.comparators[0], ast.Name):
            nm = n.comparators[0].id
            if nm in params and may_be_str(params[nm]) and nm not in rebound and not isinstance(n.left, ast.Constant) and not isinstance(n.left, ast.JoinedStr):
                def not_str(t, pol):
                    if isinstance(t, ast.UnaryOp) and isinstance(t.op, ast.Not):
                        return not_str(t.operand, not pol)
                    if isinstance(t, ast.BoolOp):
                        if (isinstance(t.op, ast.And) and pol) or (isinstance(t.op, ast.Or) and not pol):
                            return any(not_str(v, pol) for v in t.values)
                        return False
                    return (not pol) and isinstance(t, ast.Call) and call_name(t) == "isinstance" and len(t.args) == 2 and isinstance(t.args[0], ast.Name) \
                        and t.args[0].id == nm and "str" in ast.unparse(t.args[1])

                excl = any(not_str(t, pol) for t, pol in _guards(n, fn))
                if not excl:
                    out.append(n)
    return out


def _guards(n, fn):
    try:
        return structural_guards(n, stop=fn)
    except Exception:  # noqa: BLE001  (fixture nodes carry no parent links)
        return []


def r19f(ctx):
    """Names are matched whole.

    A table name, range name or address handed to a lookup selects the objects whose name *equals* it.  `x in P` with P a parameter typed
    `str | list[str]` silently becomes a substring test when the caller passes one name: "Sheet1" then also selects through "Sheet10" — the
    Table.name setter re-targets named ranges of another table that way.  Rule (expected count 0, fixture evaluated on every run): no
    `value in P` / `not in P` on a parameter that may be a bare str, unless the value is a literal or str has been excluded.
    """
    repo = ctx.repo
    ctx.rule("R19f", "no `value in parameter` test where the parameter may be a bare str (substring instead of equality) in name/address matching", floor=500)
    for f in repo.all_funcs():
        bad = _substring_tests(f.node)
        ctx.instance("R19f", f"{f.file}:{f.ident}", "no substring test on a str-or-collection parameter", ok=not bad, nontrivial=bool(bad), line=f.node.lineno)
        for n in bad:
            ctx.report("R19f", f, n, norm(n, 60),
                       f"{f.ident}: `{norm(n, 50)}` is a substring test when `{n.comparators[0].id}` is passed as a single str: a name that merely contains (or is contained "
                       f"in) the requested one is selected too — e.g. renaming table 'Sheet10' re-targets the named ranges of 'Sheet1'")
    tree = ast.parse(_FIXTURE_F)
    got = {fn.name: len(_substring_tests(fn)) for fn in tree.body}
    if got != {"bad": 1, "ok_narrowed": 0, "ok_literal": 0}:
        raise AnalysisError(f"R19f fixture: substring-test detector broken: {got}")


def r19g(ctx):
    """A Table method resolves a coordinate against the table before a row sees it.

    Negative numbers count from the current end *of the table*; letters name a column of the table.  Rows resolve the same forms against
    their own stored width, which is smaller than the table's for every row that does not reach the last column.  So a raw coordinate
    parameter of a Table method that is handed to a method of a row object (row.get_cell(x), row.set_cell(x, …) …) is resolved per row:
    `get_column_cells(-1)` then reads a different column in each row.  Rule: in Table methods no coordinate parameter reaches a row-level
    call with its entry definition (it must have been re-defined first, by `_translate_*` or an unpacking of parsed coordinates).
    """
    from ..paths import reaching_defs
    repo = ctx.repo
    ctx.rule("R19g", "Table methods hand rows only coordinates already resolved against the table", floor=4)
    table = repo.cls("Table")
    COORD_PARAMS = {"x", "y", "z", "t", "coord", "start", "end"}
    n = 0
    for name, fs in sorted(table.methods.items()):
        f = fs[0]
        params = [a.arg for a in f.all_params() if a.arg in COORD_PARAMS]
        if not params:
            continue
        ax = Axis(f, False)
        cfg = None
        for c in walk_no_nested(f.node):
            if not (isinstance(c, ast.Call) and _recv_kind(ax, c) == "row"):
                continue
            used = [a for a in list(c.args) + [k.value for k in c.keywords] for a in ([a] + (list(a.elts) if isinstance(a, ast.Tuple) else []))
                    if isinstance(a, ast.Name) and a.id in params]
            for a in used:
                n += 1
                if cfg is None:
                    cfg = cfg_of(f)
                rd = reaching_defs(cfg, a.id).get(node_of(cfg, c).id, frozenset())
                raw = cfg.entry.id in rd
                ctx.instance("R19g", f"{f.file}:{f.ident}", f"{norm(c, 40)}: `{a.id}` " + ("is still the caller's raw value" if raw else "was resolved against the table first"),
                             ok=not raw, nontrivial=True, line=c.lineno)
                if raw:
                    ctx.report("R19g", f, c, f"{norm(c, 50)} receives the raw parameter `{a.id}`",
                               f"Table.{name} passes its coordinate parameter `{a.id}` to a row without resolving it against the table: a negative number (or a letter beyond "
                               f"the row) is interpreted against that row's own width, so each row answers for a different column")
    if n == 0:
        raise AnalysisError("R19g: no Table method hands a coordinate parameter to a row")


def r19i(ctx):
    """Every named range that can be looked up is listed.

    Renaming a table re-targets "the named ranges that point to it": they are found by listing all named ranges of the document and
    filtering by table name.  The listing and the lookup by name must therefore search the same places — document-wide
    `table:named-expressions` and the sheet-scoped ones inside a `table:table` alike (`descendant::`).  Rule: the queries of
    Element.get_named_ranges and Element.get_named_range start with the same axis and path.
    """
    repo = ctx.repo
    ctx.rule("R19i", "get_named_ranges (listing, used by the rename) and get_named_range (lookup) search the same path", floor=1)
    fa, fb = repo.func("Element.get_named_ranges"), repo.func("Element.get_named_range")

    def paths(f):
        out = set()
        for c in walk_no_nested(f.node):
            if isinstance(c, ast.Call) and call_name(c) in ("get_elements", "get_element", "_filtered_element", "_filtered_elements", "xpath") and c.args:
                a0 = c.args[0]
                v = repo.fold(a0, f.module)
                if not isinstance(v, str) and isinstance(a0, ast.JoinedStr) and a0.values and isinstance(a0.values[0], ast.Constant):
                    v = a0.values[0].value  # the constant head of an f-string: path up to the first predicate
                if isinstance(v, str):
                    out.add(v.split("[")[0])
        return out

    pa, pb = paths(fa), paths(fb)
    ok = bool(pa) and pa == pb and all(p.startswith("descendant::") or p.startswith("//") for p in pa)
    ctx.instance("R19i", f"{fa.file}:{fa.ident}", f"listing searches {sorted(pa)}, lookup searches {sorted(pb)}", ok=ok, nontrivial=True, line=fa.node.lineno)
    if not ok:
        ctx.report("R19i", fa, fa.node, f"listing {sorted(pa)} vs lookup {sorted(pb)}",
                   f"get_named_ranges searches {sorted(pa)} while get_named_range searches {sorted(pb)}: a named range that the lookup finds (sheet-scoped, inside a table:table) is not "
                   f"listed, so renaming its table does not update it and it keeps pointing to the old name")


def r19h(ctx):
    """A short tuple means rows to a method that walks rows, columns to one that walks columns.

    The table and the column translators return the same four numbers for every string form and every 4-tuple, and opposite ones for a
    1- or 2-item tuple: `(1, 3)` is rows 2..4 for the table translator and columns B..D for the column translator.  "The equivalent tuple
    addresses the same cells in every method that takes coordinates" therefore needs each method to use the translator of what it walks:
    a method that uses the row components (2nd / 4th) of the result resolves its coordinate with `_translate_table_coordinates`, a method
    that uses the column components only with `_translate_column_coordinates`.
    """
    repo = ctx.repo
    ctx.rule("R19h", "Table methods resolve an area with the translator of the axis they walk (row components used ⇒ table translator; columns only ⇒ column translator)", floor=5)
    t = repo.cls("Table")
    for name, fs in sorted(t.methods.items()):
        f = fs[0]
        for a in walk_no_nested(f.node):
            if not (isinstance(a, ast.Assign) and isinstance(a.targets[0], ast.Tuple) and len(a.targets[0].elts) == 4 and isinstance(a.value, ast.Call)
                    and call_name(a.value) in ("_translate_table_coordinates", "_translate_column_coordinates")):
                continue
            comps = [e.id if isinstance(e, ast.Name) else None for e in a.targets[0].elts]
            loads = {x.id for x in walk_no_nested(f.node) if isinstance(x, ast.Name) and isinstance(x.ctx, ast.Load)}
            rows_used = any(c in loads for c in (comps[1], comps[3]) if c)
            cols_used = any(c in loads for c in (comps[0], comps[2]) if c)
            want = "_translate_table_coordinates" if rows_used else "_translate_column_coordinates" if cols_used else None
            got = call_name(a.value)
            ok = want is None or got == want
            ctx.instance("R19h", f"{f.file}:{f.ident}", f"{got}: row components {'used' if rows_used else 'unused'}, column components {'used' if cols_used else 'unused'}", ok=ok,
                         nontrivial=True, line=a.lineno)
            if not ok:
                ctx.report("R19h", f, a, norm(a, 70),
                           f"Table.{name} uses the {'row' if rows_used else 'column'} components of the area but resolves it with {got}: a 1- or 2-item tuple such as (1, 3) is read as "
                           f"{'columns' if rows_used else 'rows'} here and as {'rows' if rows_used else 'columns'} by the sibling methods, so the same tuple addresses different cells")


# ---- R19j: what each coordinate form means, computed by evaluating the translators on symbolic references ---------------------------------

_TOP = ("top",)
_NONE = ("sym", frozenset({"None"}))


def _cj_join(a, b):
    if a == b:
        return a
    if a is None:
        return b
    if b is None:
        return a
    if a[0] == "sym" and b[0] == "sym":
        return ("sym", a[1] | b[1])
    if a[0] == "tuple" and b[0] == "tuple" and len(a[1]) == len(b[1]):
        return ("tuple", tuple(_cj_join(x, y) for x, y in zip(a[1], b[1])))
    return _TOP


def _cj_show(v) -> str:
    if v is None:
        return "no return"
    if v[0] == "sym":
        return "|".join(sorted(v[1])) or "·"
    if v[0] == "tuple":
        return "(" + ",".join(_cj_show(x) for x in v[1]) + ")"
    if v[0] == "str":
        return f"str[{v[1]}]"
    return "?"


class _CoordSem:
    """Evaluates the coordinate translators on a symbolic argument: a string reference that parses to k items P0..Pk-1, or a tuple of k numbers
    P0..Pk-1.  Values are sets of origins; tests on the *kind* of the argument (isinstance str, len == k, isiterable) are decided, every other
    test (signs, None) is explored both ways and joined; increment()/min()/max() keep the origin of what they adjust."""

    def __init__(self, repo):
        self.repo = repo

    def call(self, cls, fname, arg, depth=0):
        f = cls.lookup(fname) if cls is not None else None
        if f is None or depth > 5:
            return _TOP
        ps = [a.arg for a in f.node.args.args if a.arg != "self"]
        env = {ps[0]: arg} if ps else {}
        rets = []
        self.block(f.node.body, env, rets, cls, depth)
        out = None
        for r in rets:
            out = _cj_join(out, r)
        return out

    def test(self, t, env):
        if isinstance(t, ast.UnaryOp) and isinstance(t.op, ast.Not):
            r = self.test(t.operand, env)
            return None if r is None else not r
        if isinstance(t, ast.Call) and call_name(t) == "isinstance" and len(t.args) == 2 and isinstance(t.args[0], ast.Name):
            v = env.get(t.args[0].id)
            names = {x.id for x in ast.walk(t.args[1]) if isinstance(x, ast.Name)}
            if v is not None and v[0] == "str":
                return "str" in names
            if v is not None and v[0] == "tuple":
                return bool(names & {"tuple", "list"})
            return None
        if isinstance(t, ast.Call) and call_name(t) == "isiterable" and t.args and isinstance(t.args[0], ast.Name):
            v = env.get(t.args[0].id)
            if v is not None and v[0] in ("str", "tuple"):
                return v[0] == "tuple"
        if isinstance(t, ast.Compare) and len(t.ops) == 1:
            l, r = t.left, t.comparators[0]
            if isinstance(l, ast.Constant):
                l, r = r, l
            if isinstance(l, ast.Call) and call_name(l) == "len" and l.args and isinstance(r, ast.Constant) and isinstance(r.value, int):
                v = self.expr(l.args[0], env, None, 9)
                if v[0] == "tuple":
                    n = len(v[1])
                    op = t.ops[0]
                    return {ast.Eq: n == r.value, ast.NotEq: n != r.value, ast.Lt: n < r.value, ast.LtE: n <= r.value, ast.Gt: n > r.value, ast.GtE: n >= r.value}.get(type(op))
        return None

    def expr(self, e, env, cls, depth):
        if isinstance(e, ast.Name):
            return env.get(e.id, ("sym", frozenset()))
        if isinstance(e, ast.Constant):
            return _NONE if e.value is None else ("sym", frozenset())
        if isinstance(e, ast.Tuple):
            return ("tuple", tuple(self.expr(x, env, cls, depth) for x in e.elts))
        if isinstance(e, ast.Subscript):
            v = self.expr(e.value, env, cls, depth)
            if v[0] == "tuple" and isinstance(e.slice, ast.Constant) and isinstance(e.slice.value, int) and -len(v[1]) <= e.slice.value < len(v[1]):
                return v[1][e.slice.value]
            if v[0] == "tuple" and isinstance(e.slice, ast.Slice):
                lo = e.slice.lower.value if isinstance(e.slice.lower, ast.Constant) else None
                hi = e.slice.upper.value if isinstance(e.slice.upper, ast.Constant) else None
                if (e.slice.lower is None or isinstance(lo, int)) and (e.slice.upper is None or isinstance(hi, int)) and e.slice.step is None:
                    return ("tuple", v[1][lo:hi])
            return _TOP
        if isinstance(e, ast.Attribute):
            return ("sym", frozenset())
        if isinstance(e, ast.BinOp):
            a, b = self.expr(e.left, env, cls, depth), self.expr(e.right, env, cls, depth)
            if a[0] == "tuple" and b[0] == "tuple" and isinstance(e.op, ast.Add):
                return ("tuple", a[1] + b[1])
            return _cj_join(a, b) if a[0] == "sym" and b[0] == "sym" else _TOP
        if isinstance(e, ast.IfExp):
            r = self.test(e.test, env)
            if r is True:
                return self.expr(e.body, env, cls, depth)
            if r is False:
                return self.expr(e.orelse, env, cls, depth)
            return _cj_join(self.expr(e.body, env, cls, depth), self.expr(e.orelse, env, cls, depth))
        if isinstance(e, ast.Call):
            nm = call_name(e)
            args = [self.expr(a, env, cls, depth) for a in e.args]
            if nm == "convert_coordinates" and args:
                a = args[0]
                if a[0] == "str":
                    return ("tuple", tuple(("sym", frozenset({f"P{i}"})) for i in range(a[1])))
                return a if a[0] == "tuple" else _TOP
            if nm in ("tuple", "list", "int") and len(args) == 1:
                return args[0]
            if nm == "increment" and args:
                return args[0]
            if nm in ("min", "max") and args:
                out = None
                for a in args:
                    out = _cj_join(out, a)
                return out
            if nm.startswith("_translate") and is_self_attr(e.func) and args and cls is not None:
                return self.call(cls, nm, args[0], depth + 1)
            return _TOP
        return _TOP

    def assign(self, tgt, val, env):
        if isinstance(tgt, ast.Name):
            env[tgt.id] = val
        elif isinstance(tgt, (ast.Tuple, ast.List)):
            if val[0] == "tuple" and len(val[1]) == len(tgt.elts):
                for t_, v_ in zip(tgt.elts, val[1]):
                    self.assign(t_, v_, env)
            else:
                for t_ in tgt.elts:
                    self.assign(t_, _TOP, env)

    def block(self, stmts, env, rets, cls, depth):
        """runs the statements; returns the environment at the end, or None when every path has left the function"""
        for st in stmts:
            if env is None:
                return None
            if isinstance(st, ast.Return):
                rets.append(self.expr(st.value, env, cls, depth) if st.value is not None else _NONE)
                return None
            if isinstance(st, ast.Raise):
                return None
            if isinstance(st, ast.Assign):
                v = self.expr(st.value, env, cls, depth)
                for t_ in st.targets:
                    self.assign(t_, v, env)
            elif isinstance(st, ast.AnnAssign) and st.value is not None:
                self.assign(st.target, self.expr(st.value, env, cls, depth), env)
            elif isinstance(st, ast.If):
                r = self.test(st.test, env)
                if r is True:
                    env = self.block(st.body, env, rets, cls, depth)
                elif r is False:
                    env = self.block(st.orelse, env, rets, cls, depth)
                else:
                    e1 = self.block(st.body, dict(env), rets, cls, depth)
                    e2 = self.block(st.orelse, dict(env), rets, cls, depth)
                    if e1 is None:
                        env = e2
                    elif e2 is None:
                        env = e1
                    else:
                        env = {k: _cj_join(e1.get(k), e2.get(k)) for k in set(e1) | set(e2)}
            elif isinstance(st, (ast.For, ast.While, ast.Try, ast.With)):
                for x in ast.walk(st):
                    if isinstance(x, ast.Name) and isinstance(x.ctx, ast.Store):
                        env[x.id] = _TOP
                    if isinstance(x, ast.Return):
                        rets.append(_TOP)
        return env


# what each form of reference means (the API documentation of Table and Row; the string forms are what the property's first sentence is about:
# 'C4' names one cell, 'C' one column, whatever the method)
_R19J_EXPECTED = {
    ("Table", "_translate_table_coordinates"): {"str2": "(P0,P1,P0,P1)", "str4": "(P0,P1,P2,P3)", "tuple1": "(None,P0,None,P0)", "tuple2": "(None,P0,None,P1)", "tuple4": "(P0,P1,P2,P3)"},
    ("Table", "_translate_column_coordinates"): {"str2": "(P0,P1,P0,P1)", "str4": "(P0,P1,P2,P3)", "tuple1": "(P0,None,P0,None)", "tuple2": "(P0,None,P1,None)", "tuple4": "(P0,P1,P2,P3)"},
    ("Table", "_translate_cell_coordinates"): {"str2": "(P0,P1)", "str4": "(P0,P1)", "tuple2": "(P0,P1)", "tuple4": "(P0,P1)"},
    ("Row", "_translate_row_coordinates"): {"str2": "(P0,P0)", "str4": "(P0,P2)", "tuple2": "(P0,P1)", "tuple4": "(P0,P2)"},
}
_R19J_WORDS = {"str2": "a string naming one cell or one column ('C4', 'C')", "str4": "a string naming an area ('A1:B3', 'A:C')", "tuple1": "a 1-tuple", "tuple2": "a 2-tuple",
               "tuple4": "a 4-tuple"}


def r19j(ctx):
    """A reference means the same cells whichever translator reads it.

    "A spreadsheet reference such as 'C4' or 'A1:B3' and the equivalent tuple of zero-based numbers address the same cells in every method that
    takes coordinates."  Every coordinate-taking method of Table and Row resolves its argument through one of four translators.  What a
    translator makes of each *form* of argument does not depend on the numbers: it is a fixed rearrangement of the parsed items, so it can be
    computed by evaluating the translator on a symbolic reference (items P0, P1, …) — tests on the kind of argument are decided, sign and None
    tests are explored both ways.  Rule: for every translator and every form, the computed rearrangement equals the documented meaning: a string
    with one reference is one cell / one column (P0,P1,P0,P1), a string with two is the area between them, a 2-tuple given to a table is a row
    (or column) range, a 2-tuple given to a row is a column range.
    """
    repo = ctx.repo
    ctx.rule("R19j", "each coordinate translator rearranges the parsed items of every argument form as documented (symbolic evaluation)", floor=18)
    sem = _CoordSem(repo)
    for (cn, fn), exp in _R19J_EXPECTED.items():
        c = repo.cls(cn)
        f = c.lookup(fn)
        if f is None:
            raise AnalysisError(f"anchor function vanished: {cn}.{fn}")
        for kind, want in exp.items():
            k = int(kind[-1])
            arg = ("str", k) if kind.startswith("str") else ("tuple", tuple(("sym", frozenset({f"P{i}"})) for i in range(k)))
            got = _cj_show(sem.call(c, fn, arg))
            if "?" in got:
                raise AnalysisError(f"R19j: cannot evaluate {cn}.{fn} on {kind}: {got}")
            ok = got == want
            ctx.instance("R19j", f"{f.file}:{f.ident}", f"{kind} -> {got}", ok=ok, nontrivial=True, line=f.node.lineno)
            if not ok:
                ctx.report("R19j", f, f.node, f"{kind} {got}",
                           f"{f.ident} reads {_R19J_WORDS[kind]} as {got} instead of {want}: the same reference addresses different cells here than in the other "
                           f"coordinate-taking methods (a single reference 'C4' / 'C' is one cell / one column, not the range from P0 to P1)")


def r19k(ctx):
    """A written address is made of resolved numbers.

    "Negative numbers count from the current end" and "written addresses parse back": a Table method that writes a cell address (column letters
    from digit_to_alpha, row number + 1) receives its coordinates in any accepted form, negative numbers included.  Only the table knows its
    extent, so the numbers that go into the address must have been through one of the table's translators; a number taken straight from the
    parser or from the argument is still relative, and digit_to_alpha / `y + 1` of a negative number is not an address of the addressed cell.
    Rule: in every method of Table, each local that feeds digit_to_alpha (and the row number written next to it) is defined, on every
    definition, from the result of a `_translate_*` / translate_from_any call.
    """
    repo = ctx.repo
    ctx.rule("R19k", "Table methods build written addresses from translated coordinates only", floor=1)
    c = repo.cls("Table")
    n_sites = 0
    for name, fs in sorted(c.methods.items()):
        for f in fs:
            if f.cls is not c:
                continue
            calls = [n for n in walk_no_nested(f.node) if isinstance(n, ast.Call) and call_name(n) == "digit_to_alpha" and n.args]
            for call in calls:
                n_sites += 1
                feed = {x.id for x in ast.walk(call.args[0]) if isinstance(x, ast.Name)}
                js = next((a for a in ancestors(call) if isinstance(a, ast.JoinedStr)), None)
                if js is not None:
                    for v in js.values:
                        if isinstance(v, ast.FormattedValue) and isinstance(v.value, ast.BinOp):
                            feed |= {x.id for x in ast.walk(v.value) if isinstance(x, ast.Name)}
                feed.discard("self")
                bad = []
                for var in sorted(feed):
                    defs = []
                    for a in walk_no_nested(f.node):
                        if isinstance(a, ast.Assign):
                            for t in a.targets:
                                if any(isinstance(x, ast.Name) and x.id == var and isinstance(x.ctx, ast.Store) for x in ast.walk(t)):
                                    defs.append(a)
                    if not defs:
                        bad.append((var, None))
                    for d in defs:
                        if not any(isinstance(x, ast.Call) and (call_name(x).startswith("_translate") or call_name(x) == "translate_from_any") for x in ast.walk(d.value)):
                            bad.append((var, d))
                ctx.instance("R19k", f"{f.file}:{f.ident}", f"address built from {sorted(feed)}: all translated", ok=not bad, nontrivial=True, line=call.lineno)
                for var, d in bad[:1]:
                    ctx.report("R19k", f, d or call, f"{name}: `{var}` untranslated",
                               f"{f.ident} writes a cell address from `{var}`, which is " + (f"defined by `{norm(d, 50)}`" if d is not None else "the argument as given") +
                               " and never resolved against the table's extent: for a negative coordinate the written address is not the address of the cell that was addressed")
    if n_sites < 1:
        raise AnalysisError("R19k: no address-writing site found in Table")


_FIXTURE_L = '''
class Table:
    def get_cells(self, coord):
        x, y, z, t = self._translate_table_coordinates(coord)
        columns = (x, z) if (x or z) else None
        return columns
    def get_rows(self, coord):
        x, y, z, t = self._translate_table_coordinates(coord)
        if not y:
            y = 0
        return y
    def fine(self, coord):
        x, y, z, t = self._translate_table_coordinates(coord)
        if x is None:
            x = 0
        if z and z < 0:
            z = 0
        while y is not None and y < t:
            y += 1
        return x, z
    def first(self, x):
        x = self._translate_x_from_any(x)
        return [] if not x else [x]
'''


def _truth_tested_coords(fn: ast.FunctionDef):
    """(name node, test) for every truth test of a local that holds a translated coordinate"""
    coords = set()
    for a in walk_no_nested(fn):
        if isinstance(a, ast.Assign) and isinstance(a.value, ast.Call) and call_name(a.value).startswith("_translate"):
            for t in a.targets:
                coords |= {x.id for x in ast.walk(t) if isinstance(x, ast.Name)}
    out = []
    if not coords:
        return out

    def truth_positions(t):
        """sub-expressions of a test that are evaluated for their truth value"""
        if isinstance(t, ast.BoolOp):
            for v in t.values:
                yield from truth_positions(v)
        elif isinstance(t, ast.UnaryOp) and isinstance(t.op, ast.Not):
            yield from truth_positions(t.operand)
        else:
            yield t

    for n in walk_no_nested(fn):
        tests = []
        if isinstance(n, (ast.If, ast.While, ast.IfExp)):
            tests.append(n.test)
        if isinstance(n, ast.Assert):
            tests.append(n.test)
        if isinstance(n, ast.comprehension):
            tests.extend(n.ifs)
        if isinstance(n, ast.BoolOp) and not any(isinstance(a, (ast.If, ast.While, ast.IfExp)) and a.test is n for a in [getattr(n, "_parent", None)]):
            # `a or b` used as a value: each operand but the last is truth-tested
            par = getattr(n, "_parent", None)
            if not isinstance(par, (ast.BoolOp, ast.UnaryOp)) and not (isinstance(par, (ast.If, ast.While, ast.IfExp)) and par.test is n):
                tests.append(ast.BoolOp(op=n.op, values=n.values[:-1])) if len(n.values) > 1 else None
        for t in tests:
            if t is None:
                continue
            for sub in truth_positions(t):
                if isinstance(sub, ast.Name) and sub.id in coords:
                    # `x and x < 0`: the truth test only shields the comparison from None
                    shielded = isinstance(t, ast.BoolOp) and isinstance(t.op, ast.And) and any(
                        isinstance(v, ast.Compare) and any(isinstance(x, ast.Name) and x.id == sub.id for x in ast.walk(v))
                        and not any(isinstance(o, (ast.Is, ast.IsNot)) for o in v.ops) for v in t.values)
                    if not shielded:
                        out.append((sub, t))
    return out


def r19l(ctx):
    """Column A and row 1 are coordinates like any other.

    "A range bounds the result on both sides" for every range, also one that starts or ends at 0.  A translated coordinate is None (open) or a
    number; `if x`, `x or z`, `not y` treat 0 like None, so an area confined to column A or row 1 is taken for "no bound" and the whole row or
    table comes back — del_span of a span in column A then retags cells of other spans.  Today no method of Table or Row tests a coordinate it
    got from a translator for truth: they compare with `is None`.  Rule (expected count 0, fixture evaluated on every run): a local bound from
    a `_translate*` call is never evaluated for its truth value, except as `v and v < …`, where the truth test only shields the comparison.
    """
    repo = ctx.repo
    ctx.rule("R19l", "a translated coordinate is tested with `is None` or compared, never for truth (0 is a coordinate)", floor=30)
    tree = ast.parse(_FIXTURE_L)
    for x in ast.walk(tree):
        for ch in ast.iter_child_nodes(x):
            ch._parent = x
    got = sorted(fn.name for fn in ast.walk(tree) if isinstance(fn, ast.FunctionDef) and _truth_tested_coords(fn))
    if got != ["first", "get_cells", "get_rows"]:
        raise AnalysisError(f"R19l fixture: detector broken: {got}")
    for cn in ("Table", "Row"):
        c = repo.cls(cn)
        for name, fs in sorted(c.methods.items()):
            for f in fs:
                if f.cls is not c or not any(isinstance(a, ast.Call) and call_name(a).startswith("_translate") for a in walk_no_nested(f.node)):
                    continue
                bad = _truth_tested_coords(f.node)
                ctx.instance("R19l", f"{f.file}:{f.ident}", "no truth test of a translated coordinate", ok=not bad, nontrivial=True, line=f.node.lineno)
                for nm, t in bad[:1]:
                    ctx.report("R19l", f, nm, f"truth({nm.id}) in {norm(t, 30)}",
                               f"{f.ident} evaluates the coordinate `{nm.id}` for its truth value in `{norm(t, 40)}`: 0 (column A, row 1) is treated like None (no bound), so a range that "
                               f"starts or ends there is not bounded on that side")


def r19m(ctx):
    """A named range is written with the table name it was given.

    "A named range written with any accepted table name and area is read back with the same table name and area."  Names of named ranges are
    unique in the whole document, so defining a name again replaces a definition that may belong to *another* table.  Table.set_named_range
    resolves the table name (the argument, or the table's own name) and builds the NamedRange from it.  A path that reuses the existing
    definition and only updates its area writes the area under the old definition's table name.  Rule: every normal path through
    Table.set_named_range hands the resolved `table_name`, and the `crange`, to the NamedRange constructor or to a setter of the range.
    """
    from ..paths import cfg_of, node_of
    repo = ctx.repo
    ctx.rule("R19m", "every normal path of Table.set_named_range writes the table name and the area it was given", floor=2)
    f = repo.func("Table.set_named_range")
    params = [a.arg for a in f.node.args.args]
    cfg = cfg_of(f)
    for pname in ("table_name", "crange"):
        if pname not in params:
            raise AnalysisError(f"R19m: Table.set_named_range lost its `{pname}` parameter")
        users = [c for c in walk_no_nested(f.node) if isinstance(c, ast.Call) and (call_name(c) == "NamedRange" or call_name(c).startswith("set_") or call_name(c) == "_set_range")
                 and any(isinstance(x, ast.Name) and x.id == pname for a in list(c.args) + [k.value for k in c.keywords] for x in ast.walk(a))]
        users += [a for a in walk_no_nested(f.node) if isinstance(a, ast.Assign) and any(isinstance(t, ast.Attribute) for t in a.targets)
                  and any(isinstance(x, ast.Name) and x.id == pname for x in ast.walk(a.value))]
        nodes = [x for x in (node_of(cfg, u) for u in users) if x is not None]
        path = cfg.path_avoiding(cfg.entry, cfg.exit, nodes, follow_exc=False) if nodes else [cfg.entry]
        ok = path is None
        ctx.instance("R19m", f"{f.file}:{f.ident}", f"`{pname}` reaches the named range on every normal path", ok=ok, nontrivial=True, line=f.node.lineno)
        if not ok:
            last = [x.stmt for x in path if x.stmt is not None][-1:] or [f.node]
            ctx.report("R19m", f, last[0], f"{pname} skipped via {norm(last[0], 40)}",
                       f"{f.ident} has a normal path (ending at `{norm(last[0], 40)}`) on which `{pname}` is never written to the named range: a name defined again from another table keeps "
                       f"the table name of its first definition, and is read back pointing to that table",
                       path=[repr(x) for x in path if x.stmt is not None][:10])


def run(ctx):
    r19a(ctx)
    r19b(ctx)
    r19c(ctx)
    r19d(ctx)
    r19e(ctx)
    r19f(ctx)
    r19g(ctx)
    r19h(ctx)
    r19i(ctx)
    r19j(ctx)
    r19k(ctx)
    r19l(ctx)
    r19m(ctx)
    # "a range bounds the result on both sides": the expanding traversals decide which columns/cells a range returns (rule shared with C08)
    from .c08 import r08c
    r08c(ctx)
    from .round12 import r19n
    r19n(ctx)


from ..selftest import Seed, unparse_seed  # noqa: E402

_T = "src/odfdo/table.py"
_R = "src/odfdo/row.py"
SEEDS = [
    Seed("get_values clips its end bound to the declared width", "fault", "src/odfdo/table.py",
         "                width = min(z + 1, self.width)\n            if x is not None:\n                width -= x\n            values = row.get_values(",
         "                z = min(z, self.width - 1)\n                width = z + 1\n            if x is not None:\n                width -= x\n            values = row.get_values(", "R19n", count=2),
    Seed("get_values names the padded width differently", "neutral", "src/odfdo/table.py",
         "                width = min(z + 1, self.width)\n            if x is not None:\n                width -= x\n            values = row.get_values(",
         "                last = min(z, self.width - 1)\n                width = last + 1\n            if x is not None:\n                width -= x\n            values = row.get_values(", count=2),
    Seed("set_named_range updates an existing definition in place", "fault", _T,
         "        named_range = NamedRange(name, crange, table_name, usage)\n        body.append_named_range(named_range)",
         "        current = body.get_named_range(name)\n        if current is not None:\n            current.set_range(crange)\n            current.set_usage(usage)\n            return\n        named_range = NamedRange(name, crange, table_name, usage)\n        body.append_named_range(named_range)", "R19m"),
    Seed("Table.get_cells drops the column range when both bounds are falsy", "fault", _T,
         "        if flat:\n            cells: list[Cell] = []\n            for row in self.traverse(start=y, end=t):\n                row_cells = row.get_cells(\n                    coord=(x, z),",
         "        if flat:\n            cells: list[Cell] = []\n            for row in self.traverse(start=y, end=t):\n                row_cells = row.get_cells(\n                    coord=(x, z) if (x or z) else None,", "R19l"),
    Seed("set_cell_image takes the address numbers straight from the parser", "fault", _T,
         "        x, y = self._translate_cell_coordinates(coord)\n        if x is None:\n            raise ValueError\n        if y is None:\n            raise ValueError\n        cell = self.get_cell((x, y))\n        image_frame",
         "        x, y = convert_coordinates(coord)[:2]\n        if x is None:\n            raise ValueError\n        if y is None:\n            raise ValueError\n        cell = self.get_cell(coord)\n        image_frame", "R19k"),
    Seed("the column translator hands a parsed string to the tuple translator", "fault", _T,
         "        coord = convert_coordinates(coord_str)\n        if len(coord) == 2:\n            x, y = coord\n            if x and x < 0:\n                x = increment(x, width)\n            if y and y < 0:\n                y = increment(y, height)\n            # extent to an area :\n            return (x, y, x, y)\n        x, y, z, t = coord\n        if x and x < 0:\n            x = increment(x, width)\n        if y and y < 0:\n            y = increment(y, height)\n        if z and z < 0:\n            z = increment(z, width)\n        if t and t < 0:\n            t = increment(t, height)\n        return (x, y, z, t)\n\n    def _translate_column_coordinates_list(",
         "        return self._translate_column_coordinates_list(convert_coordinates(coord_str))\n\n    def _translate_column_coordinates_list(", "R19j"),
    Seed("get_named_ranges lists the document-wide named expressions only", "fault", "src/odfdo/element.py",
         '        named_ranges = self.get_elements(\n            "descendant::table:named-expressions/table:named-range"\n        )\n        return named_ranges',
         '        named_ranges = self.get_elements(\n            "table:named-expressions/table:named-range"\n        )\n        return named_ranges', "R19i"),
    Seed("iter_values resolves its area with the column translator", "fault", _T,
         "            x, y, z, t = self._translate_table_coordinates(coord)\n        else:\n            x = y = z = t = None\n        for row in self.traverse(start=y, end=t):\n            if z is None:\n                width = self.width",
         "            x, y, z, t = self._translate_column_coordinates(coord)\n        else:\n            x = y = z = t = None\n        for row in self.traverse(start=y, end=t):\n            if z is None:\n                width = self.width", "R19h"),
    Seed("get_column_cells hands the raw x to each row", "fault", _T,
         "        x = self._translate_x_from_any(x)\n        if cell_type:\n            cell_type = cell_type.lower().strip()\n        cells: list[Cell | None] = []",
         "        if cell_type:\n            cell_type = cell_type.lower().strip()\n        cells: list[Cell | None] = []", "R19g"),
    Seed("named ranges filtered by `in` on the raw table_name argument", "fault", _T, '            if nr.table_name in filter_  # type:ignore', "            if nr.table_name in table_name  # type:ignore", "R19f"),
    Seed("named ranges filtered on the raw argument once str is excluded", "neutral", _T, "        return [\n            nr\n            for nr in all_named_ranges\n" + '            if nr.table_name in filter_  # type:ignore',
         "        if not isinstance(table_name, str):\n            return [nr for nr in all_named_ranges if nr.table_name in table_name]\n        return [\n            nr\n            for nr in all_named_ranges\n" + '            if nr.table_name in filter_  # type:ignore'),
    Seed("get_columns bounded by the row component again", "fault", _T,
         "            x, _y, z, _t = self._translate_column_coordinates(coord)\n        else:\n            x = z = None\n        if not style:\n            return list(self.traverse_columns(start=x, end=z))",
         "            x, _y, _z, t = self._translate_column_coordinates(coord)\n        else:\n            x = t = None\n        if not style:\n            return list(self.traverse_columns(start=x, end=t))", "R19a"),
    Seed("get_values traverses rows x..z", "fault", _T,
         "        data = []\n        for row in self.traverse(start=y, end=t):", "        data = []\n        for row in self.traverse(start=y, end=z):", "R19a"),
    Seed("get_cells passes (y, t) as the row's column range", "fault", _T,
         "            for row in self.traverse(start=y, end=t):\n                row_cells = row.get_cells(\n                    coord=(x, z),\n                    cell_type=cell_type,\n                    style=style,\n                    content=content,\n                )\n                cells.extend(row_cells)",
         "            for row in self.traverse(start=y, end=t):\n                row_cells = row.get_cells(\n                    coord=(x, t),\n                    cell_type=cell_type,\n                    style=style,\n                    content=content,\n                )\n                cells.extend(row_cells)", "R19a"),
    Seed("negative row index wrapped with the width", "fault", _T,
         "        if y and y < 0:\n            y = increment(y, self.height)\n        return (x, y)", "        if y and y < 0:\n            y = increment(y, self.width)\n        return (x, y)", "R19a"),
    Seed("_translate_y_from_any uses the width", "fault", _T,
         "return translate_from_any(y, self.height, 1)", "return translate_from_any(y, self.width, 1)", "R19a"),
    Seed("_translate_table_coordinates_str swaps z and t wrap", "fault", _T,
         "        if z and z < 0:\n            z = increment(z, width)\n        if t and t < 0:\n            t = increment(t, height)\n        return (x, y, z, t)\n\n    def _translate_table_coordinates(",
         "        if z and z < 0:\n            z = increment(z, height)\n        if t and t < 0:\n            t = increment(t, width)\n        return (x, y, z, t)\n\n    def _translate_table_coordinates(", "R19a"),
    Seed("get_cell outside test against width", "fault", _T,
         "        # Outside the defined table\n        if y >= self.height:\n            cell = Cell()", "        # Outside the defined table\n        if y >= self.width:\n            cell = Cell()", "R19a"),
    Seed("set_cell stamps x into cell.y", "fault", _T,
         "        cell.x = x\n        cell.y = y\n        if y >= self.height:\n            row = Row()", "        cell.x = y\n        cell.y = x\n        if y >= self.height:\n            row = Row()", "R19a"),
    Seed("transpose writes back the untransposed rectangle", "fault", _T,
         "self.set_cells(filtered_data, (x, y, x + h - 1, y + w - 1))", "self.set_cells(filtered_data, (x, y, x + w - 1, y + h - 1))", "R19a"),
    Seed("named range address uses the row for the column letter", "fault", _T,
         'return f"${name}.${digit_to_alpha(self.start[0])}${self.start[1] + 1}"  # type: ignore',
         'return f"${name}.${digit_to_alpha(self.start[1])}${self.start[0] + 1}"  # type: ignore', "R19a"),
    Seed("rename overwrites the name before retargeting ranges", "fault", _T,
         "        for named_range in self.get_named_ranges(table_name=self.name):\n            named_range.set_table_name(name)\n        self.set_attribute(\"table:name\", name)",
         "        self.set_attribute(\"table:name\", name)\n        for named_range in self.get_named_ranges(table_name=self.name):\n            named_range.set_table_name(name)", "R19c"),
    Seed("rename forgets the named ranges", "fault", _T,
         "        for named_range in self.get_named_ranges(table_name=self.name):\n            named_range.set_table_name(name)\n", "", "R19c"),
    Seed("delete_row uses the raw argument", "fault", _T,
         "        y = self._translate_y_from_any(y)\n        # Outside the defined table\n        if y >= self.height:\n            return\n        # Inside the defined table\n        delete_item_in_vault(y, self, _xpath_row_idx, \"_tmap\")",
         "        # Outside the defined table\n        if y >= self.height:\n            return\n        # Inside the defined table\n        delete_item_in_vault(y, self, _xpath_row_idx, \"_tmap\")", "R19d"),
    Seed("digit_to_alpha divides by 25", "fault", "src/odfdo/utils/coordinates.py", "        digit = (digit - 1) // 26", "        digit = (digit - 1) // 25", "R19e"),
    Seed("alpha_to_digit refuses names longer than three letters", "fault", "src/odfdo/utils/coordinates.py", "    if not alpha.isalpha():\n        raise ValueError(f'column name", "    if not alpha.isalpha() or len(alpha) > 3:\n        raise ValueError(f'column name", "R19e"),
    Seed("digit_to_alpha refuses numbers above 16383", "fault", "src/odfdo/utils/coordinates.py", "    if not isinstance(digit, int):\n        raise TypeError(", "    if not isinstance(digit, int) or digit > 16383:\n        raise TypeError(", "R19e"),
    Seed("alpha_to_digit refuses the empty name explicitly", "neutral", "src/odfdo/utils/coordinates.py", "    if not alpha.isalpha():\n        raise ValueError(f'column name", "    if not alpha or not alpha.isalpha():\n        raise ValueError(f'column name"),
    Seed("alpha_to_digit forgets the zero-based shift", "fault", "src/odfdo/utils/coordinates.py", "    return column - 1", "    return column", "R19e"),
    Seed("convert_coordinates keeps rows 1-based", "fault", "src/odfdo/utils/coordinates.py", "            line = int(coord[len(alpha) :]) - 1", "            line = int(coord[len(alpha) :])", "R19e"),
    unparse_seed(_T), unparse_seed(_R), unparse_seed("src/odfdo/utils/coordinates.py"),
    Seed("alpha_to_digit with renamed locals", "neutral", "src/odfdo/utils/coordinates.py",
         "    column = 0\n    for c in alpha.lower():\n        v = ord(c) - ord(\"a\") + 1\n        column = column * 26 + v\n    return column - 1",
         "    acc = 0\n    for letter in alpha.lower():\n        val = ord(letter) - ord(\"a\") + 1\n        acc = acc * 26 + val\n    return acc - 1"),
]
