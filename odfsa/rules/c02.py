"""C02 — what a table answers in memory is what its XML says (structural clauses).

R02a  every structural mutation is followed by restoring the position map before the public method returns;
      no map is read while obsolete (TOM, interprocedural by inlining)
R02b  wrapper coherence: renumbering or editing rows through other wrappers drops the wrapper index (TOM)
R02c  vault protocol: from the first XML mutation every normal path resets the index and rewrites the map
R02d  the rebuilds read the XML: scheme and repeat attribute agree with getters and _set_repeated
R02e  CachedElement.clear resets every map and index key that the constructors create
"""

from __future__ import annotations

import ast

from ..core import UNKNOWN, AnalysisError, FuncInfo, body_no_doc, call_name, is_self_attr, norm, walk_no_nested
from ..paths import cfg_of, node_of, structural_guards
from ..tomrun import run_tom

EXPLANATION = (
    "R02a/R02b come from the table-object-model abstract interpreter: for each of the ~130 methods of Table, Row and "
    "the MDTable mixin the state of every position map (clean / appended / obsolete) and wrapper index (empty / "
    "populated / stale) is propagated through the method with all in-class callees inlined; obligations are checked "
    "at every normal exit of every public method and at every map read. R02c is a must-pass-through query on the CFG "
    "of the three vault functions. R02d/R02e are table comparisons (scheme ↔ scheme, attribute ↔ attribute, "
    "constructor keys ↔ clear keys). Equality of an incrementally patched map with a rebuilt one is arithmetic "
    "and not decided (R01e covers the split sites)."
)
ASSUMPTIONS = [
    "the vault functions are axioms of TOM only because R02c checks their protocol on the same run",
    "the public `repeated` setters recompute the cache of a fresh parent wrapper and are treated as plain structural mutations inside the package",
]

VAULTS = ("set_item_in_vault", "insert_item_in_vault", "delete_item_in_vault")
MUTATORS = {"delete", "insert", "append", "_append", "extend", "clear", "_set_repeated"}


def r02ab(ctx, tom):
    ctx.rule("R02a", "structural mutation ⇒ position map restored before a public method returns; no read of an obsolete map", floor=100)
    ctx.rule("R02b", "items renumbered or rows edited through other wrappers ⇒ wrapper index dropped before return", floor=100)
    bad = {"R02a": set(), "R02b": set()}
    for rule, f, node, construct, message, path in tom.findings:
        if rule in bad:
            ctx.report(rule, f, node, construct, message, path)
            bad[rule].add(f.ident)
    for rule, where, what, ok, line in tom.instances:
        if rule == "TOM":
            ident = where.split(":")[1]
            ctx.instance("R02a", where, "maps clean at every normal exit; no map read while obsolete", ok=ident not in bad["R02a"], nontrivial=True, line=line)
            ctx.instance("R02b", where, "no wrapper index left or read stale", ok=ident not in bad["R02b"], nontrivial=True, line=line)
    ctx.extra["tom"] = tom.stats


def r02c(ctx):
    repo = ctx.repo
    ctx.rule("R02c", "vault protocol: after the first XML mutation every normal path resets the wrapper index and rewrites the map", floor=3)
    m = repo.module("element_cached")
    for name in VAULTS:
        f = m.functions.get(name)
        if f is None:
            raise AnalysisError(f"R02c: vault function vanished: {name}")
        cfg = cfg_of(f)
        muts = [n for n in walk_no_nested(f.node) if isinstance(n, ast.Call) and call_name(n) in MUTATORS and isinstance(n.func, ast.Attribute)
                and isinstance(n.func.value, ast.Name) and n.func.value.id in ("vault", "current_item", "after_item", "delete_item")]
        resets = [n for n in walk_no_nested(f.node) if isinstance(n, ast.Assign) and isinstance(n.targets[0], ast.Subscript)
                  and ast.unparse(n.targets[0].value) == "vault._indexes" and ast.unparse(n.targets[0].slice) == "vault_map_name"
                  and isinstance(n.value, ast.Dict) and not n.value.keys]
        sets = [n for n in walk_no_nested(f.node) if isinstance(n, ast.Call) and call_name(n) == "setattr" and len(n.args) == 3
                and ast.unparse(n.args[0]) == "vault" and ast.unparse(n.args[1]) == "vault_map_name"]
        if not muts:
            raise AnalysisError(f"R02c: no XML mutation found in {name}")
        reset_nodes = [node_of(cfg, r) for r in resets]
        set_nodes = [node_of(cfg, s) for s in sets]
        first = min(muts, key=lambda n: n.lineno)
        # index reset: dominates every mutation, or lies on every path from a mutation to the exit
        ok_reset = True
        for mu in muts:
            mn = node_of(cfg, mu)
            dom = any(cfg.dominates(r, mn) for r in reset_nodes)
            post = bool(reset_nodes) and cfg.path_avoiding(mn, cfg.exit, reset_nodes, follow_exc=False) is None
            if not (dom or post):
                ok_reset = False
                ctx.report("R02c", f, mu, f"{norm(mu, 50)} without vault._indexes[vault_map_name] = {{}}",
                           f"{name} changes the XML here but a path reaches the return without emptying the wrapper index: cached wrappers "
                           f"of renumbered items are served afterwards")
        ctx.instance("R02c", f"{f.file}:{f.ident}", f"{len(muts)} XML mutation(s): index reset dominates or post-dominates each", ok=ok_reset, nontrivial=True)
        ok_set = True
        for mu in muts:
            mn = node_of(cfg, mu)
            cex = cfg.path_avoiding(mn, cfg.exit, set_nodes, follow_exc=False) if set_nodes else [mn]
            if cex is not None:
                ok_set = False
                ctx.report("R02c", f, mu, f"{norm(mu, 50)} without setattr(vault, vault_map_name, …)",
                           f"{name} changes the XML here but a path reaches the return without rewriting the position map",
                           path=[repr(x) for x in cex if x.stmt is not None][:10])
        ctx.instance("R02c", f"{f.file}:{f.ident}", "every path from a mutation to the return rewrites the map", ok=ok_set, nontrivial=True)
        # the map is read through getattr(vault, vault_map_name) — the same name that is written
        reads = [n for n in walk_no_nested(f.node) if isinstance(n, ast.Call) and call_name(n) == "getattr" and len(n.args) >= 2
                 and ast.unparse(n.args[1]) == "vault_map_name"]
        okr = bool(reads)
        ctx.instance("R02c", f"{f.file}:{f.ident}", "map read and written under the same attribute name", ok=okr)
        if not okr:
            ctx.report("R02c", f, f.node, "getattr(vault, vault_map_name)", f"{name} does not read the map it rewrites")


def _repeat_attr_of(repo, clsname: str) -> str | None:
    f = repo.func(f"{clsname}._set_repeated")
    for n in walk_no_nested(f.node):
        if isinstance(n, ast.Call) and call_name(n) == "set_attribute" and n.args:
            v = repo.fold(n.args[0], f.module)
            if isinstance(v, str):
                return v
    return None


def r02d(ctx):
    repo = ctx.repo
    ctx.rule("R02d", "cache rebuilds derive each map from the scheme its getters use and the repeat attribute _set_repeated writes", floor=3)
    specs = [("Table._compute_table_cache", "_tmap", "Row", "Table._get_rows", "_xpath_row_idx"),
             ("Table._compute_table_cache", "_cmap", "Column", "Table._get_columns", "_xpath_column_idx"),
             ("Row._compute_row_cache", "_rmap", "Cell", "Row._get_cells", "_xpath_cell_idx")]
    for q, mapname, item_cls, getter, idx_scheme in specs:
        f = repo.func(q)
        g = repo.func(getter)
        want_attr = _repeat_attr_of(repo, item_cls)
        # find: seq = self.elements_repeated_sequence(<scheme>, <attr>); self.<map> = make_cache_map(seq)
        seqs = {}
        for n in walk_no_nested(f.node):
            if isinstance(n, ast.Assign) and isinstance(n.value, ast.Call) and call_name(n.value) == "elements_repeated_sequence" and len(n.value.args) == 2:
                seqs[id(n)] = (n, ast.unparse(n.value.args[0]), repo.fold(n.value.args[1], f.module))
        body = body_no_doc(f.node)
        found = None
        last_seq = None
        for s in body:
            if id(s) in seqs:
                last_seq = seqs[id(s)]
            if isinstance(s, ast.Assign) and is_self_attr(s.targets[0], mapname) and isinstance(s.value, ast.Call) and call_name(s.value) == "make_cache_map":
                found = last_seq
        gscheme = None
        for n in walk_no_nested(g.node):
            if isinstance(n, ast.Call) and call_name(n) == "get_elements" and n.args:
                gscheme = ast.unparse(n.args[0])
        ok = found is not None and found[1] == gscheme and found[2] == want_attr
        ctx.instance("R02d", f"{f.file}:{f.ident}", f"{mapname} = make_cache_map(elements_repeated_sequence({found[1] if found else '?'}, "
                     f"{found[2] if found else '?'})); getter scheme {gscheme}; {item_cls}._set_repeated writes {want_attr}", ok=ok, nontrivial=True,
                     line=f.node.lineno)
        if not ok:
            ctx.report("R02d", f, f.node, f"{mapname}: scheme {found[1] if found else None} / attribute {found[2] if found else None}",
                       f"{q} does not rebuild {mapname} from the scheme of {getter} ({gscheme}) and the attribute written by "
                       f"{item_cls}._set_repeated ({want_attr}): the rebuilt map disagrees with the XML")
        # the [$idx] scheme selects among the same items as the list scheme
        mod = f.module
        a, b = mod.assigns.get(gscheme or ""), mod.assigns.get(idx_scheme)
        pa = repo.fold(a.args[0], mod) if isinstance(a, ast.Call) and a.args else None
        pb = repo.fold(b.args[0], mod) if isinstance(b, ast.Call) and b.args else None
        ok2 = isinstance(pa, str) and isinstance(pb, str) and pb.replace(" ", "") == f"({pa.strip('()')})[$idx]".replace(" ", "")
        ctx.instance("R02d", f"{mod.relpath}", f"{idx_scheme} = ({gscheme})[$idx]", ok=ok2, nontrivial=True)
        if not ok2:
            ctx.report("R02d", mod, b or mod.tree, f"{idx_scheme} vs {gscheme}",
                       f"the indexed scheme {idx_scheme} does not select among the same items as {gscheme}: item indices of the map and of "
                       f"_get_element_idx2 disagree")
    # elements_repeated_sequence clamps below at 1 and enumerates in document order
    f = repo.func("Element.elements_repeated_sequence")
    from ..shape import has
    ok = has(f.node, "R_.append((I_, max(V_, 1)))") and has(f.node, "I_ += 1") and has(f.node, "R_.append((I_, 1))")
    ctx.instance("R02d", f"{f.file}:{f.ident}", "repeat values are clamped to >= 1 and indexed in document order", ok=ok)
    if not ok:
        ctx.report("R02d", f, f.node, "elements_repeated_sequence", "repeat values are no longer clamped to at least 1 / indexed consecutively")


def r02e(ctx):
    repo = ctx.repo
    ctx.rule("R02e", "CachedElement.clear resets every map attribute and index key created by the constructors", floor=3)
    clear = repo.func("CachedElement.clear")
    reset_attrs = {n.targets[0].attr if isinstance(n, ast.Assign) else n.target.attr for n in walk_no_nested(clear.node)
                   if (isinstance(n, ast.Assign) and is_self_attr(n.targets[0])) or (isinstance(n, ast.AnnAssign) and is_self_attr(n.target))}
    reset_keys = {n.targets[0].slice.value for n in walk_no_nested(clear.node) if isinstance(n, ast.Assign) and isinstance(n.targets[0], ast.Subscript)
                  and is_self_attr(n.targets[0].value, "_indexes") and isinstance(n.targets[0].slice, ast.Constant)}
    clears_xml = any(isinstance(n, ast.Call) and call_name(n) == "clear" and "element" in ast.unparse(n.func.value) for n in walk_no_nested(clear.node))
    ctx.instance("R02e", f"{clear.file}:{clear.ident}", "clears the lxml node", ok=clears_xml)
    if not clears_xml:
        ctx.report("R02e", clear, clear.node, "XML not cleared", "CachedElement.clear no longer clears the XML node")
    for q in ("Table.__init__", "Row.__init__"):
        f = repo.func(q)
        maps = set()
        keys = set()
        for n in walk_no_nested(f.node):
            if isinstance(n, ast.Assign) and is_self_attr(n.targets[0]) and n.targets[0].attr in ("_tmap", "_cmap", "_rmap"):
                maps.add(n.targets[0].attr)
            if isinstance(n, ast.Assign) and isinstance(n.targets[0], ast.Subscript) and is_self_attr(n.targets[0].value, "_indexes") \
                    and isinstance(n.targets[0].slice, ast.Constant):
                keys.add(n.targets[0].slice.value)
        # maps assigned by the rebuild called from the constructor
        for c in walk_no_nested(f.node):
            if isinstance(c, ast.Call) and call_name(c) in ("_compute_table_cache", "_compute_row_cache"):
                g = f.cls.lookup(call_name(c))
                for n in walk_no_nested(g.node):
                    if isinstance(n, ast.Assign) and is_self_attr(n.targets[0]) and n.targets[0].attr.endswith("map"):
                        maps.add(n.targets[0].attr)
        ok = maps <= reset_attrs and keys <= reset_keys | ({"_rmap"} if "_rmap" in keys else set())
        ok = ok and ("_rmap" not in keys or "_rmap" in reset_keys)
        ctx.instance("R02e", f"{f.file}:{f.ident}", f"maps {sorted(maps)} ⊆ reset {sorted(reset_attrs)}; index keys {sorted(keys)} ⊆ reset {sorted(reset_keys)}",
                     ok=ok, nontrivial=True)
        if not ok:
            ctx.report("R02e", clear, clear.node, f"{q}: maps {sorted(maps - reset_attrs)} keys {sorted(keys - reset_keys)} not reset",
                       f"CachedElement.clear leaves {sorted((maps - reset_attrs) | (keys - reset_keys))} of {q.split('.')[0]} untouched: after clear() "
                       f"reads are served from the maps of the old content")


def r02f(ctx):
    """Each wrapper index is its own, fresh dictionary.

    `_indexes[<map name>]` maps an item index to the cached wrapper of that row / cell / column.  Row, cell and column indexes are all keyed
    0, 1, 2 …: if two of them are one dict object (a chained assignment `a = b = {}`, or an index assigned from another index), a read of
    one kind is served wrappers of the other kind.  A reset that assigns anything but a new empty dict keeps stale wrappers alive.
    Rule: every store into `<x>._indexes[key]` is a single-target assignment of an empty dict display.
    """
    repo = ctx.repo
    ctx.rule("R02f", "every reset of a wrapper index assigns its own new empty dict (single target, `{}`)", floor=15)
    n = 0
    for f in repo.all_funcs():
        if f.file not in ("src/odfdo/table.py", "src/odfdo/row.py", "src/odfdo/element_cached.py"):
            continue
        for a in walk_no_nested(f.node):
            if not isinstance(a, ast.Assign):
                continue
            idx_targets = [t for t in a.targets if isinstance(t, ast.Subscript) and isinstance(t.value, ast.Attribute) and t.value.attr == "_indexes"]
            if not idx_targets:
                continue
            n += 1
            fresh = (isinstance(a.value, ast.Dict) and not a.value.keys) or (isinstance(a.value, ast.Call) and call_name(a.value) == "dict" and not a.value.args and not a.value.keywords)
            single = len(a.targets) == 1
            ok = fresh and single
            ctx.instance("R02f", f"{f.file}:{f.ident}", f"{norm(a, 60)}: " + ("own new dict" if ok else ("shared by several targets" if not single else "not a new empty dict")),
                         ok=ok, nontrivial=not ok, line=a.lineno)
            if not ok:
                why = "one dict object becomes the index of several item kinds (rows, cells and columns are all keyed from 0): a read of one kind returns wrappers of another" \
                    if not single else "the index is not reset to a new empty dict: wrappers cached before the change stay reachable (or the dict is shared with its source)"
                ctx.report("R02f", f, a, norm(a, 70), f"{f.ident}: {why}")
        # the whole `_indexes` attribute: an empty dict, or a dict display whose values are each their own new `{}`
        for a in walk_no_nested(f.node):
            if isinstance(a, (ast.Assign, ast.AnnAssign)):
                tgts = a.targets if isinstance(a, ast.Assign) else [a.target]
                if not any(isinstance(t, ast.Attribute) and t.attr == "_indexes" for t in tgts) or a.value is None:
                    continue
                n += 1
                v = a.value
                ok = isinstance(v, ast.Dict) and all(isinstance(x, ast.Dict) and not x.keys for x in v.values) and len(tgts) == 1
                ctx.instance("R02f", f"{f.file}:{f.ident}", f"{norm(a, 60)}: " + ("new dict of new dicts" if ok else "not a display of fresh dicts"), ok=ok, nontrivial=not ok, line=a.lineno)
                if not ok:
                    ctx.report("R02f", f, a, norm(a, 70),
                               f"{f.ident} rebuilds `_indexes` with `{norm(v, 40)}`: unless every key gets its own new dict (e.g. dict.fromkeys(keys, {{}}) gives all keys ONE dict), "
                               f"the row, cell and column indexes alias one another and a read of one kind is served wrappers of another")
    if n == 0:
        raise AnalysisError("R02f: no wrapper-index reset found")


VAULT_CALLS = {"set_item_in_vault", "insert_item_in_vault", "delete_item_in_vault"}


def r02g(ctx):
    """A wrapper is filed in the index under an item index that is still valid.

    `_indexes[name][k] = wrapper` claims "the k-th item of the scheme is this wrapper".  The vault functions split, merge and renumber the
    items, so an item index computed *before* such a call names another item afterwards (the new item of a split run sits at k+1, k is the
    shortened part before it).  Rule: between every definition of the key that reaches an index store and the store itself there is no
    call of a vault function and no structural edit of the same owner (insert/delete/append/_append/clear on it).
    """
    from ..paths import cfg_of, node_of, reaching_defs
    repo = ctx.repo
    ctx.rule("R02g", "a wrapper is cached under an item index computed after the last renumbering of the items", floor=6)
    n = 0
    for cname in ("Table", "Row"):
        c = repo.cls(cname)
        for name, fs in c.methods.items():
            f = fs[0]
            _al = _index_aliases(f.node)
            stores = [a for a in walk_no_nested(f.node) if isinstance(a, ast.Assign) and len(a.targets) == 1 and isinstance(a.targets[0], ast.Subscript)
                      and ((isinstance(a.targets[0].value, ast.Subscript) and isinstance(a.targets[0].value.value, ast.Attribute) and a.targets[0].value.value.attr == "_indexes")
                           or (isinstance(a.targets[0].value, ast.Name) and a.targets[0].value.id in _al))]
            if not stores:
                continue
            cfg = cfg_of(f)
            renumber = [node_of(cfg, x) for x in walk_no_nested(f.node) if isinstance(x, ast.Call) and (
                call_name(x) in VAULT_CALLS or (call_name(x) in ("insert", "delete", "append", "_append", "clear", "extend") and is_self_attr(x.func)))]
            renumber = [r for r in renumber if r is not None]
            byid = {nd.id: nd for nd in cfg.nodes}
            for st in stores:
                n += 1
                key = st.targets[0].slice
                sn = node_of(cfg, st)
                bad = None
                for kn in [x for x in ast.walk(key) if isinstance(x, ast.Name)]:
                    for d in reaching_defs(cfg, kn.id).get(sn.id, frozenset()):
                        dn = byid[d]
                        if dn is cfg.entry:
                            continue
                        after_def = cfg.reach_from(dn)
                        for r in renumber:
                            if r.id in after_def and r is not dn and sn.id in cfg.reach_from(r) and r is not sn:
                                # r lies on a path def → r → store; a loop that re-defines the key each turn re-validates it
                                if cfg.path_avoiding(r, sn, [dn], follow_exc=False) is not None:
                                    bad = (kn.id, dn, r)
                ok = bad is None
                ctx.instance("R02g", f"{f.file}:{f.ident}", f"{norm(st, 50)}: key " + ("computed from the current numbering" if ok else f"`{bad[0]}` predates {norm(bad[2].stmt, 40)}"),
                             ok=ok, nontrivial=True, line=st.lineno)
                if not ok:
                    ctx.report("R02g", f, st, f"{norm(st, 60)} — `{bad[0]}` computed at line {bad[1].stmt.lineno}, items renumbered at line {bad[2].stmt.lineno}",
                               f"{cname}.{name} files a wrapper in the index under `{bad[0]}`, an item index computed before `{norm(bad[2].stmt, 50)}` renumbered the items: "
                               f"when that call splits a repeated run, the index now points the earlier part of the run at the new item, and later reads of those positions "
                               f"are served the wrong row/cell")
    if n == 0:
        raise AnalysisError("R02g: no population of a wrapper index found")


_MEMO = ("cache", "lru_cache", "cached_property")

_FIXTURE_H = '''
class T:
    @property
    @cache
    def width(self):
        return len(self.cells)
    @lru_cache(maxsize=None)
    def get_value(self, x):
        return self.cells[x]
    @property
    def height(self):
        if self._h is None:
            self._h = len(self.rows)
        return self._h
    def get_row(self, y):
        row = self._indexes["_tmap"][y] = self.find(y)
        return row
    def size(self):
        return (self.width, self.height)
@cache
def compile_path(path: str):
    return XPath(path)
@cache
def cell_text(cell):
    return cell.text
'''


def _memo_sites(cls_funcs, module_funcs, read_only):
    """(function node, site, text): cache decorators on methods (and on module functions whose parameters are not all declared str/int/bool),
    and stores on `self` inside read-only methods other than into the `_indexes` wrapper caches."""
    out = []

    def memo_decorators(fn):
        return [d for d in fn.decorator_list if any(isinstance(x, (ast.Name, ast.Attribute)) and (x.id if isinstance(x, ast.Name) else x.attr) in _MEMO for x in ast.walk(d))]

    for fn in cls_funcs:
        for d in memo_decorators(fn):
            out.append((fn, d, f"`@{norm(d, 30)}` on {fn.name}"))
        if not read_only(fn):
            continue
        for st in walk_no_nested(fn):
            tg = st.targets if isinstance(st, ast.Assign) else [st.target] if isinstance(st, (ast.AugAssign, ast.AnnAssign)) else []
            for t in tg:
                for x in ast.walk(t):
                    if isinstance(x, ast.Attribute) and isinstance(x.ctx, ast.Store) and isinstance(x.value, ast.Name) and x.value.id == "self":
                        out.append((fn, st, f"`{norm(st, 50)}` keeps an answer on the object"))
                    if isinstance(x, ast.Subscript) and isinstance(x.ctx, ast.Store) and isinstance(x.value, ast.Attribute) and isinstance(x.value.value, ast.Name) \
                            and x.value.value.id == "self" and x.value.attr != "_indexes":
                        out.append((fn, st, f"`{norm(st, 50)}` keeps an answer on the object"))
    for fn in module_funcs:
        for d in memo_decorators(fn):
            ps = fn.args.posonlyargs + fn.args.args + fn.args.kwonlyargs
            plain = all(a.annotation is not None and ast.unparse(a.annotation).replace(" ", "") in ("str", "int", "bool", "str|None", "int|None") for a in ps)
            if not plain or fn.args.vararg or fn.args.kwarg:
                out.append((fn, d, f"`@{norm(d, 30)}` on {fn.name}, whose arguments are not plain immutable values"))
    return out


def r02h(ctx):
    """No answer is remembered outside the caches the protocol governs.

    "No read may be served from … cached … objects that an earlier operation has made obsolete."  The position maps and the `_indexes`
    wrapper caches are reset by the vault protocol (R02a–g).  Any *other* memo has no invalidation at all: a functools cache on a method
    keys on `self` and answers from the first call for ever; an attribute written by a getter does the same.  Today the read-only methods
    of Table, Row, Cell, Column and everything they inherit from store nothing on `self` but `_indexes[…]` entries, and the only cached
    functions of the package map a str to a compiled XPath or take no argument.  Rule (expected count 0; fixture with four violating and
    three clean functions evaluated on every run): no cache decorator on a method of those classes, none on a module function whose
    parameters are not all declared str/int/bool, and no store on `self` other than `_indexes[…]` in a getter or read-only method.
    """
    from .c15 import READ_ONLY
    repo = ctx.repo
    ctx.rule("R02h", "no answer of a table class is memoised outside the governed caches (no cache decorator, no store on self in a read-only method except _indexes[…])", floor=300)
    tree = ast.parse(_FIXTURE_H)
    cf = [n for n in ast.walk(tree) if isinstance(n, ast.FunctionDef) and any(a.arg == "self" for a in n.args.args)]
    mf = [n for n in tree.body if isinstance(n, ast.FunctionDef)]
    got = sorted({fn.name for fn, _, _ in _memo_sites(cf, mf, lambda fn: bool(READ_ONLY.match(fn.name)) or any(isinstance(d, ast.Name) and d.id == "property" for d in fn.decorator_list))})
    if got != ["cell_text", "get_value", "height", "width"]:
        raise AnalysisError(f"R02h fixture: memo detector broken: {got}")
    classes = []
    for nm in ("Table", "Row", "Cell", "Column", "RowGroup"):
        for k in repo.cls(nm).mro:
            if k not in classes:
                classes.append(k)
    by_node = {}
    for c in classes:
        for name, fs in c.methods.items():
            for f in fs:
                if f.kind in ("setter", "deleter", "nested"):
                    continue
                by_node[id(f.node)] = f
    ro = {id(f.node) for f in by_node.values() if f.kind == "getter" or READ_ONLY.match(f.name)}
    modfuncs = [f for f in repo.all_funcs() if f.cls is None and f.kind != "nested"]
    for f in modfuncs:
        by_node[id(f.node)] = f
    sites = _memo_sites([f.node for f in by_node.values() if f.cls is not None], [f.node for f in modfuncs], lambda fn: id(fn) in ro)
    bad: dict[int, list] = {}
    for fn, n_, why in sites:
        bad.setdefault(id(fn), []).append((n_, why))
    for k, f in by_node.items():
        b = bad.get(k, [])
        ctx.instance("R02h", f"{f.file}:{f.ident}", "not memoised", ok=not b, nontrivial=bool(b), line=f.node.lineno)
        for n_, why in b[:2]:
            ctx.report("R02h", f, n_, why.split("`")[1] if "`" in why else why,
                       f"{f.ident}: {why}; nothing invalidates it when the table is edited, so later reads are served the first answer instead of what the XML says")


def _index_aliases(fn: ast.FunctionDef) -> set[str]:
    """locals that stand for one wrapper index: every definition is `<obj>._indexes[<name>]`"""
    defs: dict[str, list] = {}
    for a in walk_no_nested(fn):
        if isinstance(a, ast.Assign) and len(a.targets) == 1 and isinstance(a.targets[0], ast.Name):
            defs.setdefault(a.targets[0].id, []).append(a.value)
    return {k for k, vs in defs.items() if all(isinstance(v, ast.Subscript) and isinstance(v.value, ast.Attribute) and v.value.attr == "_indexes" for v in vs)}


def _is_index_expr(e: ast.AST, aliases: set[str]) -> bool:
    return (isinstance(e, ast.Subscript) and isinstance(e.value, ast.Attribute) and e.value.attr == "_indexes") or (isinstance(e, ast.Name) and e.id in aliases)


def r02i(ctx):
    """The wrapper index is keyed by the number the wrapper was fetched with.

    `_indexes[name]` maps the *item index* (the k of "k-th row/cell/column element") to the wrapper of that element; the vault functions, the
    traversals and the single-item readers all share the one dict per owner.  A reader that files or looks up a wrapper under another number —
    the logical position it was asked for — still works alone, but the dict then holds two key spaces: the traversal finds under item index 2
    the wrapper somebody filed for position 2, a different cell whenever a repeated run lies in front.  Rule: in every method of Table and Row
    that fetches an element with `_get_element_idx2(scheme, k)`, every key used on a wrapper index (store, read, membership test; the index
    named directly or through a local alias) is that same `k`.
    """
    repo = ctx.repo
    ctx.rule("R02i", "a wrapper index is read and written under the item index the element is fetched with", floor=12)
    n = 0
    for cname in ("Table", "Row"):
        c = repo.cls(cname)
        for name, fs in sorted(c.methods.items()):
            for f in fs:
                if f.cls is not c:
                    continue
                fetch = [x for x in walk_no_nested(f.node) if isinstance(x, ast.Call) and call_name(x) == "_get_element_idx2" and len(x.args) >= 2]
                if not fetch:
                    continue
                fetch_keys = {ast.unparse(x.args[1]) for x in fetch}
                aliases = _index_aliases(f.node)
                uses = []
                for x in walk_no_nested(f.node):
                    if isinstance(x, ast.Subscript) and _is_index_expr(x.value, aliases) and not (isinstance(x.value, ast.Attribute)):
                        # x = INDEX[key]  (INDEX itself is `obj._indexes[name]`, whose own subscript is the name, not a key)
                        if isinstance(x.value, ast.Subscript) or isinstance(x.value, ast.Name):
                            uses.append((x, x.slice))
                    if isinstance(x, ast.Compare) and len(x.ops) == 1 and isinstance(x.ops[0], (ast.In, ast.NotIn)) and _is_index_expr(x.comparators[0], aliases):
                        uses.append((x, x.left))
                for site, key in uses:
                    n += 1
                    ok = ast.unparse(key) in fetch_keys
                    ctx.instance("R02i", f"{f.file}:{f.ident}", f"{norm(site, 40)}: keyed by the fetch index", ok=ok, nontrivial=True, line=site.lineno)
                    if not ok:
                        ctx.report("R02i", f, site, f"{norm(site, 40)} key≠fetch",
                                   f"{f.ident} uses `{norm(key, 20)}` as a key of the wrapper index, but fetches the element with item index `{sorted(fetch_keys)[0]}`: the index is shared "
                                   f"with the traversals and the vault functions, which key it by item index — with a repeated run in front, a later read or write finds the wrapper of "
                                   f"another cell (or row) under that number")
    if n < 12:
        raise AnalysisError(f"R02i: only {n} keyed use(s) of a wrapper index found")


def r02j(ctx):
    """clear() resets every map the object has.

    CachedElement.clear empties the element and must leave no position map describing the children that are gone.  Table, Row and Column
    share the class and differ in which maps they own (`_tmap`, `_cmap`, `_rmap` — a Row has all three names), so each reset asks only
    "does this object have that map?".  Chaining the resets (`if has _tmap … elif has _rmap …`) lets the first match win: a Row takes the
    table's branch, keeps its cell map, and every read of the emptied row walks positions whose cells no longer exist.  Rule: in
    CachedElement.clear each of the three maps is assigned an empty list under no condition other than `hasattr(self, <that map>)`.
    """
    repo = ctx.repo
    ctx.rule("R02j", "CachedElement.clear resets each position map on its own (no reset is conditional on another map)", floor=3)
    f = repo.func("CachedElement.clear")
    n = 0
    for m_ in ("_tmap", "_cmap", "_rmap"):
        sets = [a for a in walk_no_nested(f.node) if isinstance(a, (ast.Assign, ast.AnnAssign)) and any(
            isinstance(t, ast.Attribute) and t.attr == m_ and isinstance(t.value, ast.Name) and t.value.id == "self" for t in (a.targets if isinstance(a, ast.Assign) else [a.target]))]
        n += 1
        why = None
        if not sets:
            why = "is never reset"
        else:
            best = None
            for a in sets:
                foreign = [(t, pol) for t, pol in structural_guards(a, stop=f.node)
                           if not (pol and isinstance(t, ast.Call) and call_name(t) == "hasattr" and len(t.args) == 2 and isinstance(t.args[1], ast.Constant) and t.args[1].value == m_)]
                if not foreign:
                    best = None
                    break
                best = foreign[0]
            else:
                pass
            if best is not None:
                why = f"is reset only when `{norm(best[0], 30)}` is {'true' if best[1] else 'false'}"
        ctx.instance("R02j", f"{f.file}:{f.ident}", f"{m_} reset on its own", ok=why is None, nontrivial=True, line=f.node.lineno)
        if why:
            ctx.report("R02j", f, sets[0] if sets else f.node, f"{m_}: {why}",
                       f"CachedElement.clear: the map `{m_}` {why}: an object that owns several maps (a Row has `_tmap`, `_cmap` and `_rmap`) keeps this one after its children are gone — "
                       f"reads of the emptied row then walk positions whose cells do not exist")
    if n < 3:
        raise AnalysisError("R02j: maps not found")


def run(ctx):
    tom = run_tom(ctx.repo)
    r02ab(ctx, tom)
    r02c(ctx)
    r02d(ctx)
    r02e(ctx)
    r02f(ctx)
    r02g(ctx)
    r02h(ctx)
    r02i(ctx)
    r02j(ctx)
    # attaching the caller's own row or cell (instead of a copy) moves a node that already sits in a table while the position map counts a new item (shared with C10)
    from .c10 import r10h
    r10h(ctx)


from ..selftest import Seed, unparse_seed  # noqa: E402

_T = "src/odfdo/table.py"
_R = "src/odfdo/row.py"
_EC = "src/odfdo/element_cached.py"
SEEDS = [
    Seed("CachedElement.clear chains the map resets", "fault", _EC,
         "        if hasattr(self, \"_cmap\"):\n            self._cmap: list[int] = []\n        if hasattr(self, \"_rmap\"):", "        if hasattr(self, \"_cmap\"):\n            self._cmap: list[int] = []\n        elif hasattr(self, \"_rmap\"):", "R02j"),
    Seed("the single-cell reader files its wrapper under the position it was asked for", "fault", _R,
         "        idx = find_odf_idx(self._rmap, x)\n        cell: Cell\n        if idx is not None:\n            if idx in self._indexes[\"_rmap\"]:\n                cell = self._indexes[\"_rmap\"][idx]\n            else:\n                cell = self._get_element_idx2(_xpath_cell_idx, idx)  # type: ignore\n                self._indexes[\"_rmap\"][idx] = cell\n            return cell",
         "        cache = self._indexes[\"_rmap\"]\n        cell: Cell\n        if x in cache:\n            return cache[x]\n        idx = find_odf_idx(self._rmap, x)\n        if idx is not None:\n            cell = self._get_element_idx2(_xpath_cell_idx, idx)  # type: ignore\n            cache[x] = cell\n            return cell", "R02i"),
    Seed("the single-cell reader names the wrapper index through a local", "neutral", _R,
         "        idx = find_odf_idx(self._rmap, x)\n        cell: Cell\n        if idx is not None:\n            if idx in self._indexes[\"_rmap\"]:\n                cell = self._indexes[\"_rmap\"][idx]\n            else:\n                cell = self._get_element_idx2(_xpath_cell_idx, idx)  # type: ignore\n                self._indexes[\"_rmap\"][idx] = cell\n            return cell",
         "        idx = find_odf_idx(self._rmap, x)\n        cache = self._indexes[\"_rmap\"]\n        cell: Cell\n        if idx is not None:\n            if idx in cache:\n                cell = cache[idx]\n            else:\n                cell = self._get_element_idx2(_xpath_cell_idx, idx)  # type: ignore\n                cache[idx] = cell\n            return cell"),
    Seed("Table.height remembers its answer on the object", "fault", _T,
         "        try:\n            height = self._tmap[-1] + 1\n        except Exception:\n            height = 0\n        return height",
         "        if getattr(self, \"_height\", None) is None:\n            try:\n                self._height = self._tmap[-1] + 1\n            except Exception:\n                self._height = 0\n        return self._height", "R02h"),
    Seed("Row.is_empty behind an lru_cache", "fault", _R, "    def is_empty(self, aggressive: bool = False) -> bool:", "    @lru_cache(maxsize=128)\n    def is_empty(self, aggressive: bool = False) -> bool:", "R02h",
         edits=[(_R, "from __future__ import annotations\n", "from __future__ import annotations\n\nfrom functools import lru_cache\n")]),
    Seed("Table.height computed through a local", "neutral", _T,
         "        try:\n            height = self._tmap[-1] + 1\n        except Exception:\n            height = 0\n        return height",
         "        tmap = self._tmap\n        try:\n            height = tmap[-1] + 1\n        except Exception:\n            height = 0\n        return height"),
    Seed("set_row caches the written row under the index computed before the vault call", "fault", _T,
         "            row_back = set_item_in_vault(  # type: ignore\n                y, row, self, _xpath_row_idx, \"_tmap\", clone=clone\n            )\n",
         "            idx = find_odf_idx(self._tmap, y)\n            row_back = set_item_in_vault(  # type: ignore\n                y, row, self, _xpath_row_idx, \"_tmap\", clone=clone\n            )\n            self._indexes[\"_tmap\"][idx] = row_back\n", "R02g"),
    Seed("rstrip resets both indexes with one chained assignment", "fault", _T,
         '        # raz cache of columns\n        self._indexes["_cmap"] = {}\n        self._compute_table_cache()\n\n    def optimize_width',
         '        self._indexes["_tmap"] = self._indexes["_cmap"] = {}\n        self._compute_table_cache()\n\n    def optimize_width', "R02f"),
    Seed("row index reset to the column index", "fault", _T,
         '        # raz cache of columns\n        self._indexes["_cmap"] = {}\n        self._compute_table_cache()\n\n    def optimize_width',
         '        self._indexes["_cmap"] = {}\n        self._indexes["_tmap"] = self._indexes["_cmap"]\n        self._compute_table_cache()\n\n    def optimize_width', "R02f"),
    Seed("rstrip forgets _compute_table_cache", "fault", _T,
         "        # raz cache of columns\n        self._indexes[\"_cmap\"] = {}\n        self._compute_table_cache()\n\n    def optimize_width(",
         "        # raz cache of columns\n        self._indexes[\"_cmap\"] = {}\n\n    def optimize_width(", "R02a"),
    Seed("rstrip keeps the row index", "fault", _T, "        # raz cache of rows\n        self._indexes[\"_tmap\"] = {}\n        # Step 3", "        # Step 3", "R02b"),
    Seed("append_row forgets the map update", "fault", _T,
         "        self._tmap = insert_map_once(self._tmap, len(self._tmap), _repeated)\n        row.y = self.height - 1", "        row.y = self.height - 1", "R02a"),
    Seed("append_row early return before the columns block", "fault", _T,
         "        self._append(row)\n        if _repeated is None:\n            _repeated = row.repeated or 1\n        self._tmap = insert_map_once(",
         "        self._append(row)\n        if _repeated is None:\n            _repeated = row.repeated or 1\n        if _repeated > 1000:\n            return row\n        self._tmap = insert_map_once(", "R02a"),
    Seed("Row.append_cell forgets the map update", "fault", _R,
         "        self._rmap = insert_map_once(self._rmap, len(self._rmap), _repeated)\n", "", "R02a"),
    Seed("Row.rstrip forgets the rebuild", "fault", _R,
         "                break\n            self.delete(cell)\n        self._compute_row_cache()\n        self._indexes[\"_rmap\"] = {}", "                break\n            self.delete(cell)\n        self._indexes[\"_rmap\"] = {}", "R02a"),
    Seed("Row.rstrip keeps the cell index", "fault", _R,
         "                break\n            self.delete(cell)\n        self._compute_row_cache()\n        self._indexes[\"_rmap\"] = {}", "                break\n            self.delete(cell)\n        self._compute_row_cache()", "R02b"),
    Seed("Row._delete_cells leaves the rebuild of the map to extend_cells, which both callers run next", "neutral", _R,
         "        for cell in self._get_cells():\n            self.delete(cell)\n        self._compute_row_cache()\n        self._indexes[\"_rmap\"] = {}", "        for cell in self._get_cells():\n            self.delete(cell)\n        self._indexes[\"_rmap\"] = {}"),
    Seed("Row._delete_cells keeps the cell index", "fault", _R,
         "        for cell in self._get_cells():\n            self.delete(cell)\n        self._compute_row_cache()\n        self._indexes[\"_rmap\"] = {}", "        for cell in self._get_cells():\n            self.delete(cell)\n        self._compute_row_cache()", "R02b"),
    Seed("Row.force_width forgets the rebuild", "fault", _R,
         "            cell._set_repeated(repeated - delta)\n            self._compute_row_cache()", "            cell._set_repeated(repeated - delta)", "R02a"),
    Seed("insert_column keeps the row index", "fault", _T,
         "            # Longer rows shouldn't exist!\n        # rows were edited through fresh wrappers: forget the cached ones\n        self._indexes[\"_tmap\"] = {}\n",
         "            # Longer rows shouldn't exist!\n", "R02b"),
    Seed("new method edits rows through fresh wrappers", "fault", _T,
         "    def delete_cell(self, coord: tuple | list | str) -> None:",
         "    def pad_rows(self) -> None:\n        for row in self._get_rows():\n            row.append_cell(Cell())\n        self._compute_table_cache()\n\n    def delete_cell(self, coord: tuple | list | str) -> None:", "R02b"),
    Seed("extend_rows forgets the rebuild", "fault", _T,
         "        self.extend(rows)\n        self._compute_table_cache()", "        self.extend(rows)", "R02a"),
    Seed("optimize_width skips the final rebuild", "fault", _T,
         "        # raz cache of columns\n        self._indexes[\"_cmap\"] = {}\n        self._compute_table_cache()\n\n    def transpose(",
         "        # raz cache of columns\n        self._indexes[\"_cmap\"] = {}\n\n    def transpose(", "R02a"),
    Seed("vault set: index reset removed", "fault", _EC,
         "        current_item = vault._get_element_idx2(vault_scheme, odf_idx)\n    vault._indexes[vault_map_name] = {}\n    target_idx = vault.index(current_item)\n    if odf_idx > 0:\n        before_cache = vault_map[odf_idx - 1]\n    else:\n        before_cache = -1\n    current_pos = before_cache + 1\n    current_repeated = current_cache - before_cache\n    repeated_before = position - current_pos\n    repeated_after = current_repeated - repeated_before - repeated",
         "        current_item = vault._get_element_idx2(vault_scheme, odf_idx)\n    target_idx = vault.index(current_item)\n    if odf_idx > 0:\n        before_cache = vault_map[odf_idx - 1]\n    else:\n        before_cache = -1\n    current_pos = before_cache + 1\n    current_repeated = current_cache - before_cache\n    repeated_before = position - current_pos\n    repeated_after = current_repeated - repeated_before - repeated", "R02c"),
    Seed("vault delete: map not rewritten when the run shrinks", "fault", _EC,
         "        current_item._set_repeated(new_repeated)\n        setattr(\n            vault,\n            vault_map_name,\n            vault_map[:odf_idx] + [(x - 1) for x in vault_map[odf_idx:]],\n        )",
         "        current_item._set_repeated(new_repeated)", "R02c"),
    Seed("vault insert: early return before the map update", "fault", _EC,
         "        # only insert new cell\n        vault.insert(new_item, position=target_idx)\n", "        # only insert new cell\n        vault.insert(new_item, position=target_idx)\n        if repeated == 1 and not vault_map:\n            return new_item\n", "R02c"),
    Seed("row cache rebuilt from the rows attribute", "fault", _R,
         '            _xpath_cell, "table:number-columns-repeated"\n        )\n        self._rmap = make_cache_map(idx_repeated_seq)',
         '            _xpath_cell, "table:number-rows-repeated"\n        )\n        self._rmap = make_cache_map(idx_repeated_seq)', "R02d"),
    Seed("table cache: column map from the row scheme", "fault", _T,
         '            _xpath_column, "table:number-columns-repeated"\n        )\n        self._cmap = make_cache_map(idx_repeated_seq)',
         '            _xpath_row, "table:number-columns-repeated"\n        )\n        self._cmap = make_cache_map(idx_repeated_seq)', "R02d"),
    Seed("clear forgets the column map", "fault", _EC,
         '        if hasattr(self, "_cmap"):\n            self._cmap: list[int] = []\n', "", "R02e"),
    unparse_seed(_T), unparse_seed(_R), unparse_seed(_EC),
    Seed("index reset before the loop with no fetch in between", "neutral", _T,
         "        for row in self._get_rows():\n            if row.width > x:\n                row.delete_cell(x)\n        # rows were edited through fresh wrappers: forget the cached ones\n        self._indexes[\"_tmap\"] = {}\n",
         "        self._indexes[\"_tmap\"] = {}\n        for row in self._get_rows():\n            if row.width > x:\n                row.delete_cell(x)\n"),
    Seed("rebuild moved into a helper", "neutral", _T,
         "        self.extend(rows)\n        self._compute_table_cache()", "        self.extend(rows)\n        self._refresh()", edits=[(_T, "    def append_row(\n", "    def _refresh(self) -> None:\n        self._compute_table_cache()\n\n    def append_row(\n")]),
]
