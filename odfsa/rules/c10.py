"""C10 — a clone is equal at birth and independent for life (structural clauses).

R10a  clone overrides copy mutable Python state by value; state set only under _do_init is copied by the override
R10b  caches are rebuilt for wrappers of existing nodes (not under _do_init)
R10c  Element.clone deep-copies the node and re-wraps through from_tag; Element.serialize works on a deep copy
R10d  Container.clone pre-loads every lazily loaded packaging before the deep copy and detaches the clone from the path
R10e  edited state is not dropped: Document.clone flushes (or clones) the parsed parts; XmlPart.clone keeps tree and root coherent
"""

from __future__ import annotations

import ast

from ..core import UNKNOWN, AnalysisError, FuncInfo, call_name, is_self_attr, norm, walk_no_nested
from ..paths import cfg_of, node_of, structural_guards
from ..registry import element_classes

EXPLANATION = (
    "Aliasing and state-coverage rules on every clone implementation of the package: (a) in each `clone` override "
    "every attribute copied from self whose type is a list/dict (found from its initialisers) is copied by value; "
    "Python-side state assigned by an element constructor only under _do_init is copied by a clone override; (b) the "
    "cache initialisation of Table/Row is not control-dependent on _do_init (Element.clone re-wraps through from_tag); "
    "(c) Element.clone = deepcopy + from_tag; (d) the set of packagings Container.get_part loads on demand equals the "
    "set Container.clone pre-loads before its deepcopy; (e) Document.clone and XmlPart.clone do not drop parsed, "
    "possibly edited state: the parsed parts are flushed into (or cloned with) the container, and the cached root "
    "is never kept while its tree is reset. Independence beyond the enumerated state and equality of serialisations "
    "are not decided."
)
ASSUMPTIONS = [
    "copy.deepcopy of an lxml element / of a bytes dict yields an independent copy",
    "Element.from_tag(node) constructs the registered class with _do_init False",
]

BY_VALUE_CALLS = {"list", "dict", "deepcopy", "copy", "set", "tuple"}


def _mutable_attrs(repo, cls) -> set[str]:
    """Attributes of cls (and bases) initialised with a list/dict/set value somewhere in the class."""
    out = set()
    for c in cls.mro:
        for fs in c.methods.values():
            for f in fs:
                for n in walk_no_nested(f.node):
                    tgt, val = None, None
                    if isinstance(n, ast.Assign) and is_self_attr(n.targets[0]):
                        tgt, val = n.targets[0], n.value
                    elif isinstance(n, ast.AnnAssign) and is_self_attr(n.target) and n.value is not None:
                        tgt, val = n.target, n.value
                    if tgt is None:
                        continue
                    if isinstance(val, (ast.List, ast.Dict, ast.Set, ast.ListComp, ast.DictComp)) or \
                            (isinstance(val, ast.Call) and call_name(val) in ("make_cache_map", "insert_map_once", "list", "dict", "_erase_map_once")):
                        out.add(tgt.attr)
    return out


def _by_value(e: ast.expr) -> bool:
    if isinstance(e, ast.Subscript) and isinstance(e.slice, ast.Slice) and e.slice.lower is None and e.slice.upper is None:
        return True
    if isinstance(e, ast.Call) and call_name(e) in BY_VALUE_CALLS:
        return True
    if isinstance(e, (ast.List, ast.Dict, ast.Set, ast.ListComp, ast.DictComp, ast.Constant)):
        return True
    return False


def r10a(ctx):
    repo = ctx.repo
    ctx.rule("R10a", "clone overrides copy lists/dicts by value; constructor-only Python state is copied by the override", floor=6)
    el = repo.cls("Element")
    for c in element_classes(repo):
        fs = [f for f in c.methods.get("clone", []) if f.kind == "getter"]
        if not fs:
            continue
        f = fs[0]
        mut = _mutable_attrs(repo, c)
        copied = set()
        for n in walk_no_nested(f.node):
            if isinstance(n, ast.Assign) and isinstance(n.targets[0], ast.Attribute) and isinstance(n.targets[0].value, ast.Name) and n.targets[0].value.id == "clone":
                attr = n.targets[0].attr
                copied.add(attr)
                from_self = any(is_self_attr(x, attr) or (isinstance(x, ast.Attribute) and is_self_attr(x)) for x in ast.walk(n.value))
                if attr in mut and from_self:
                    ok = _by_value(n.value)
                    ctx.instance("R10a", f"{f.file}:{f.ident}", f"clone.{attr} = {norm(n.value, 30)} (list/dict copied by value)", ok=ok, nontrivial=True, line=n.lineno)
                    if not ok:
                        ctx.report("R10a", f, n, n, f"{c.name}.clone shares the mutable {attr} with the original: an edit of either one patches the "
                                   f"position map of the other")
                else:
                    ctx.instance("R10a", f"{f.file}:{f.ident}", f"clone.{attr} = {norm(n.value, 30)}", ok=True, line=n.lineno)
        # base mechanism used
        ok = any(isinstance(x, ast.Attribute) and x.attr == "fget" for x in walk_no_nested(f.node)) or \
            any(isinstance(x, ast.Call) and call_name(x) in ("deepcopy", "from_tag") for x in walk_no_nested(f.node))
        ctx.instance("R10a", f"{f.file}:{f.ident}", "override starts from Element.clone (deep copy + from_tag)", ok=ok)
        if not ok:
            ctx.report("R10a", f, f.node, f"{c.name}.clone does not deep-copy", f"{c.name}.clone is not built on Element.clone's deep copy")
        # state only set under _do_init in __init__
        init = c.methods.get("__init__", [None])[0]
        if init is not None:
            for n in walk_no_nested(init.node):
                if isinstance(n, ast.Assign) and is_self_attr(n.targets[0]) and not n.targets[0].attr.startswith("__"):
                    attr = n.targets[0].attr
                    under = any("_do_init" in ast.unparse(t) and pol for t, pol in structural_guards(n, stop=init.node))
                    is_prop = c.lookup(attr, "setter") is not None
                    if under and not is_prop and attr not in copied and not _propdef(repo, c, attr):
                        ctx.instance("R10a", f"{init.file}:{init.ident}", f"self.{attr} set only under _do_init and not copied by clone", ok=False, line=n.lineno)
                        ctx.report("R10a", init, n, f"self.{attr} only under _do_init",
                                   f"{c.name} keeps Python-side state {attr!r} that is set only when a new element is built and is not copied by "
                                   f"{c.name}.clone: the clone differs from the original at birth")
    # classes with Python-side coordinates must override clone
    for cname, attrs in (("Cell", {"x", "y"}), ("Row", {"y", "_rmap"}), ("Column", {"x"})):
        c = repo.cls(cname)
        f = [g for g in c.methods.get("clone", []) if g.kind == "getter"]
        copied = {n.targets[0].attr for g in f for n in walk_no_nested(g.node) if isinstance(n, ast.Assign) and isinstance(n.targets[0], ast.Attribute)
                  and isinstance(n.targets[0].value, ast.Name) and n.targets[0].value.id == "clone"}
        ok = attrs <= copied
        ctx.instance("R10a", f"{c.module.relpath}:{cname}.clone", f"copies {sorted(attrs)}", ok=ok, nontrivial=True)
        if not ok:
            ctx.report("R10a", c.module, c.node, f"{cname}.clone does not copy {sorted(attrs - copied)}",
                       f"{cname}.clone loses {sorted(attrs - copied)}: the clone is not addressed like the original")


def _propdef(repo, c, attr) -> bool:
    from ..registry import propdefs
    for cc in c.mro:
        for nm, *_ in propdefs(repo, cc, own_only=True):
            if nm == attr:
                return True
    return False


def r10b(ctx):
    repo = ctx.repo
    ctx.rule("R10b", "Table/Row constructors rebuild caches for wrappers of existing nodes (not under _do_init)", floor=4)
    for q, calls in (("Table.__init__", "_compute_table_cache"), ("Row.__init__", "_compute_row_cache")):
        f = repo.func(q)
        cs = [c for c in walk_no_nested(f.node) if isinstance(c, ast.Call) and call_name(c) == calls]
        free = [c for c in cs if not any("_do_init" in ast.unparse(t) for t, _ in structural_guards(c, stop=f.node))]
        ok = bool(free)
        ctx.instance("R10b", f"{f.file}:{f.ident}", f"{calls}() called outside `if self._do_init`", ok=ok, nontrivial=True)
        if not ok:
            ctx.report("R10b", f, f.node, f"{calls}() only under _do_init",
                       f"{q} computes the position maps only for newly built elements: a clone (re-wrapped through from_tag) has no maps")
        idx = [n for n in walk_no_nested(f.node) if isinstance(n, ast.Assign) and is_self_attr(n.targets[0], "_indexes")]
        ok = bool(idx) and not any("_do_init" in ast.unparse(t) for n in idx for t, _ in structural_guards(n, stop=f.node))
        ctx.instance("R10b", f"{f.file}:{f.ident}", "self._indexes initialised unconditionally", ok=ok)
        if not ok:
            ctx.report("R10b", f, f.node, "_indexes only under _do_init", f"{q} initialises the wrapper index only for newly built elements")


def r10c(ctx):
    repo = ctx.repo
    ctx.rule("R10c", "Element.clone deep-copies and re-wraps through from_tag; serialize works on a copy", floor=2)
    f = repo.func("Element.clone", "getter")
    dc = [c for c in walk_no_nested(f.node) if isinstance(c, ast.Call) and call_name(c) == "deepcopy"]
    ft = [c for c in walk_no_nested(f.node) if isinstance(c, ast.Call) and call_name(c) in ("from_tag", "from_tag_for_clone")]
    ok = bool(dc) and bool(ft) and "__element" in ast.unparse(dc[0]) and isinstance(ft[0].args[0], ast.Name)
    if ok:
        copyvar = [n.targets[0].id for n in walk_no_nested(f.node) if isinstance(n, ast.Assign) and n.value is dc[0] and isinstance(n.targets[0], ast.Name)]
        ok = bool(copyvar) and ft[0].args[0].id == copyvar[0]
    ctx.instance("R10c", f"{f.file}:{f.ident}", "from_tag(deepcopy(self.__element))", ok=ok, nontrivial=True)
    if not ok:
        ctx.report("R10c", f, f.node, "Element.clone", "Element.clone does not wrap a deep copy of its node through the class registry")
    g = repo.func("Element.serialize")
    dc = [c for c in walk_no_nested(g.node) if isinstance(c, ast.Call) and call_name(c) == "deepcopy"]
    ts = [c for c in walk_no_nested(g.node) if isinstance(c, ast.Call) and call_name(c) == "tostring"]
    ok = bool(dc) and bool(ts) and isinstance(ts[0].args[0], ast.Name) and any(
        isinstance(n, ast.Assign) and n.value is dc[0] and isinstance(n.targets[0], ast.Name) and n.targets[0].id == ts[0].args[0].id for n in walk_no_nested(g.node))
    ctx.instance("R10c", f"{g.file}:{g.ident}", "tostring(deepcopy(self.__element))", ok=ok, nontrivial=True)
    if not ok:
        ctx.report("R10c", g, g.node, "Element.serialize", "Element.serialize no longer serialises a private copy (lxml serialisation side effects reach the tree)")


def enclosing_loops_of(n):
    from ..paths import enclosing_loops
    try:
        return enclosing_loops(n)
    except Exception:  # noqa: BLE001
        return []


def r10d(ctx):
    repo = ctx.repo
    ctx.rule("R10d", "Container.clone pre-loads every packaging that get_part loads lazily, before deepcopy; the clone has no path", floor=3)
    gp = repo.func("Container.get_part")
    lazy = set()
    for n in walk_no_nested(gp.node):
        if isinstance(n, ast.If) and isinstance(n.test, ast.Compare) and "__packaging" in ast.unparse(n.test.left) and isinstance(n.test.ops[0], ast.Eq):
            # only arms that load something when the path is absent from __parts
            if any(isinstance(c, ast.Call) and call_name(c) in ("_get_zip_part", "_get_folder_part") for s in n.body for c in ast.walk(s)):
                lazy.add(ast.unparse(n.test.comparators[0]))
    f = repo.func("Container.clone", "getter")
    cfg = cfg_of(f)
    dc = [c for c in walk_no_nested(f.node) if isinstance(c, ast.Call) and call_name(c) == "deepcopy"]
    if not dc:
        ctx.instance("R10d", f"{f.file}:{f.ident}", "deepcopy(self)", ok=False)
        ctx.report("R10d", f, f.node, "no deepcopy", "Container.clone does not deep-copy the container")
        return
    pre = set()
    for n in walk_no_nested(f.node):
        if isinstance(n, ast.If):
            for cmp_ in ast.walk(n.test):
                if isinstance(cmp_, ast.Compare) and "__packaging" in ast.unparse(cmp_.left) and isinstance(cmp_.ops[0], ast.Eq):
                    loads = any(isinstance(c, ast.Call) and call_name(c) in ("_get_all_zip_part", "get_part", "_get_folder_part", "_get_zip_part")
                                for s in n.body for c in ast.walk(s))
                    head = n
                    while isinstance(getattr(head, "_parent", None), ast.If) and head in head._parent.orelse:
                        head = head._parent
                    before = cfg.dominates(node_of(cfg, head), node_of(cfg, dc[0]))
                    if loads and before:
                        pre.add(ast.unparse(cmp_.comparators[0]))
    ok = lazy <= pre and bool(lazy)
    ctx.instance("R10d", f"{f.file}:{f.ident}", f"lazily loaded packagings {sorted(lazy)} ⊆ pre-loaded before deepcopy {sorted(pre)}", ok=ok, nontrivial=True)
    if not ok:
        ctx.report("R10d", f, f.node, f"lazy {sorted(lazy)} / pre-loaded {sorted(pre)}",
                   f"Container.get_part loads parts on demand for packagings {sorted(lazy)} but Container.clone pre-loads only {sorted(pre)} before "
                   f"detaching the clone from its path: a clone of a {sorted(lazy - pre)} container has no parts and cannot load them")
    # the pre-load is decided by the packaging (and the presence of a path) alone: a comparison of counts or any other shortcut skips members that were never read
    for c in [x for x in walk_no_nested(f.node) if isinstance(x, ast.Call) and call_name(x) in ("_get_all_zip_part", "_get_folder_part", "_get_zip_part")
              or isinstance(x, ast.Call) and call_name(x) == "get_part" and x.lineno < dc[0].lineno]:
        extra = [t for t, _pol in structural_guards(c, stop=f.node)
                 if not any(isinstance(x, ast.Attribute) and (x.attr.endswith("__packaging") or x.attr in ("path", "packaging")) for x in ast.walk(t))
                 and not (isinstance(t, ast.Compare) and len(t.ops) == 1 and isinstance(t.ops[0], (ast.In, ast.NotIn)) and isinstance(t.comparators[0], ast.Attribute)
                          and t.comparators[0].attr.endswith("__parts"))]
        loops = [lp for lp in enclosing_loops_of(c) if not any(isinstance(x, ast.Call) and call_name(x) in ("_get_folder_parts", "get_parts") or isinstance(x, ast.Attribute) and x.attr == "parts"
                                                             for x in ast.walk(lp.iter))]
        okp = not extra
        ctx.instance("R10d", f"{f.file}:{f.ident}", f"`{norm(c, 30)}` runs whenever the packaging loads lazily", ok=okp, nontrivial=True, line=c.lineno)
        if not okp:
            ctx.report("R10d", f, c, f"{norm(c, 40)} only under `{norm(extra[0], 40)}`",
                       f"Container.clone pre-loads the members only when `{norm(extra[0], 50)}`: parts added in memory count like members that were read, so the shortcut can skip members "
                       f"never read — the path-less clone cannot load them any more and a save of the clone silently lacks them")
    nopath = [n for n in walk_no_nested(f.node) if isinstance(n, ast.Assign) and isinstance(n.targets[0], ast.Attribute) and n.targets[0].attr == "path"
              and isinstance(n.value, ast.Constant) and n.value.value is None]
    ok = bool(nopath) and nopath[0].lineno > dc[0].lineno
    ctx.instance("R10d", f"{f.file}:{f.ident}", "clone.path = None after the deep copy", ok=ok)
    if not ok:
        ctx.report("R10d", f, f.node, "clone keeps the path", "the cloned container still points at the original file: saving it overwrites the source")
    # a clone without a path must not stay in a packaging whose loader needs the path
    if "FOLDER" in lazy:
        resets = [n for n in walk_no_nested(f.node) if isinstance(n, ast.Assign) and isinstance(n.targets[0], ast.Attribute) and "__packaging" in n.targets[0].attr]
        ok = bool(resets)
        ctx.instance("R10d", f"{f.file}:{f.ident}", "a path-less clone does not keep the FOLDER packaging (its loader stats the path)", ok=ok, nontrivial=True)
        if not ok:
            ctx.report("R10d", f, f.node, "clone keeps FOLDER packaging without a path",
                       "get_part of a FOLDER container compares time stamps under self.path; the clone has path None: every get_part raises")


def r10f(ctx):
    """Pre-loading must not overwrite what is already in memory (edited or deleted parts)."""
    repo = ctx.repo
    ctx.rule("R10f", "bulk loaders of the part table never overwrite a part that is already in memory", floor=2)
    c = repo.cls("Container")
    INITIAL = {"_read_zip": "initial load into an empty part table (called from open())"}
    n_inst = 0

    def is_table(e, aliases):
        """`self.__parts` (mangled or not) or a local alias of it."""
        if isinstance(e, ast.Attribute) and e.attr.endswith("__parts") and isinstance(e.value, ast.Name) and e.value.id == "self":
            return True
        return isinstance(e, ast.Name) and e.id in aliases

    for name, fs in c.methods.items():
        f = fs[0]
        aliases: set[str] = set()
        for _ in range(2):
            for a in walk_no_nested(f.node):
                if isinstance(a, ast.Assign) and len(a.targets) == 1 and isinstance(a.targets[0], ast.Name) and is_table(a.value, aliases):
                    aliases.add(a.targets[0].id)
        for loop in [n for n in walk_no_nested(f.node) if isinstance(n, ast.For) and any(k in ast.unparse(n.iter) for k in ("namelist", "infolist", "_get_folder_parts"))]:
            # every way of storing into the part table inside the loop
            stores = []  # (statement, key expression, kind)
            for a in ast.walk(loop):
                if isinstance(a, ast.Assign) and isinstance(a.targets[0], ast.Subscript) and is_table(a.targets[0].value, aliases):
                    stores.append((a, a.targets[0].slice, "store"))
                elif isinstance(a, ast.Call) and isinstance(a.func, ast.Attribute) and is_table(a.func.value, aliases) and a.func.attr in ("update", "setdefault", "__setitem__"):
                    stores.append((a, a.args[0] if a.args else a, a.func.attr))
            for st, keyx, kind in stores:
                n_inst += 1
                key = ast.unparse(keyx)
                gs = structural_guards(st, stop=loop)

                def absent(t, pol):
                    # `key not in table` taken, or `key in table` not taken
                    if isinstance(t, ast.UnaryOp) and isinstance(t.op, ast.Not):
                        return absent(t.operand, not pol)
                    if isinstance(t, ast.BoolOp) and isinstance(t.op, ast.And) and pol:
                        return any(absent(v, True) for v in t.values)
                    if isinstance(t, ast.BoolOp) and isinstance(t.op, ast.Or) and not pol:
                        return any(absent(v, False) for v in t.values)
                    if not (isinstance(t, ast.Compare) and len(t.ops) == 1 and ast.unparse(t.left) == key and is_table(t.comparators[0], aliases)):
                        return False
                    return (isinstance(t.ops[0], ast.NotIn) and pol) or (isinstance(t.ops[0], ast.In) and not pol)

                guarded = kind == "setdefault" or (kind in ("store", "__setitem__") and any(absent(t, pol) for t, pol in gs))
                ok = guarded or name in INITIAL
                how = ("setdefault keeps an existing entry" if kind == "setdefault" else f"guarded by the absence of `{key}` from the part table") if guarded \
                    else "(" + INITIAL.get(name, "UNGUARDED: the test in force does not establish that the key is absent (a deleted part is present, with value None)") + ")"
                ctx.instance("R10f", f"{f.file}:{f.ident}", f"{norm(st, 50)} {how}", ok=ok, nontrivial=True, line=st.lineno)
                if not ok:
                    ctx.report("R10f", f, st, st, f"{c.name}.{name} re-reads members from the file into the part table where an entry already exists: parts that were "
                               f"modified (set_part) or deleted (entry None) in memory are replaced by the file's content — a clone of an edited container "
                               f"reverts, and a deleted part whose manifest entry is gone comes back into the saved package")
    if n_inst == 0:
        raise AnalysisError("R10f: no bulk loader of the part table found")


def r10e(ctx):
    repo = ctx.repo
    ctx.rule("R10e", "clones keep edited state: Document.clone flushes/clones parsed parts; XmlPart.clone keeps tree and root coherent", floor=2)
    f = repo.func("Document.clone", "getter")
    resets_parts = any(isinstance(n, ast.Call) and call_name(n) == "setattr" and any(isinstance(a, ast.Dict) for a in n.args) for n in walk_no_nested(f.node))
    flush = [n for n in walk_no_nested(f.node) if isinstance(n, ast.For) and "xmlparts" in ast.unparse(n.iter)
             and any(isinstance(c, ast.Call) and call_name(c) in ("set_part",) and "serialize" in ast.unparse(c) for c in ast.walk(n))]
    clones_parts = any(isinstance(x, ast.Attribute) and x.attr == "clone" and "part" in ast.unparse(x.value) for x in walk_no_nested(f.node))
    ok = (not resets_parts) or bool(flush) or clones_parts
    ctx.instance("R10e", f"{f.file}:{f.ident}", f"parsed parts reset={resets_parts}, flushed into the cloned container={bool(flush)}, cloned={clones_parts}", ok=ok, nontrivial=True)
    if not ok:
        ctx.report("R10e", f, f.node, "Document.clone drops the parsed parts",
                   "Document.clone empties the cache of parsed XML parts and clones the container, whose bytes predate the edits: "
                   "the clone of an edited document lacks the edits")
    if flush:
        guards = [ast.unparse(t) for c in ast.walk(flush[0]) if isinstance(c, ast.Call) and call_name(c) == "set_part" for t, pol in structural_guards(c, stop=flush[0])]
        ok = all("is not None" in g for g in guards)
        ctx.instance("R10e", f"{f.file}:{f.ident}", f"flush filters nothing but None ({guards})", ok=ok)
        if not ok:
            ctx.report("R10e", f, flush[0], f"flush filtered by {guards}", "Document.clone flushes only some of the parsed parts")
        # the flush must go into the container that ends up in the clone
        tgt = [ast.unparse(c.func.value) for c in ast.walk(flush[0]) if isinstance(c, ast.Call) and call_name(c) == "set_part"]
        used = any(isinstance(n, ast.Call) and call_name(n) == "setattr" and len(n.args) == 3 and ast.unparse(n.args[2]) in tgt for n in walk_no_nested(f.node)) \
            or any(t.startswith("self.container") for t in tgt)
        ctx.instance("R10e", f"{f.file}:{f.ident}", f"flushed container {tgt} is the one given to the clone", ok=used)
        if not used:
            ctx.report("R10e", f, flush[0], f"flush target {tgt}", "the parsed parts are flushed into a container that is not the clone's")
    g = repo.func("XmlPart.clone", "getter")
    reset = set()
    # which attribute names are given None in the clone: every setattr(clone, name, None) with the `name == "…"` / `name in (…)` tests in force
    # at that call (polarity-aware, so the orientation of the if/elif chain does not matter)
    for c in walk_no_nested(g.node):
        if not (isinstance(c, ast.Call) and call_name(c) == "setattr" and len(c.args) == 3 and isinstance(c.args[2], ast.Constant) and c.args[2].value is None):
            continue
        for t, pol in structural_guards(c, stop=g.node):
            if not pol or not isinstance(t, ast.Compare) or len(t.ops) != 1 or not isinstance(t.ops[0], (ast.Eq, ast.In)):
                continue
            v = repo.fold(t.comparators[0], g.module)
            if isinstance(v, str):
                reset.add(v)
            elif isinstance(v, (tuple, list, set, frozenset)):
                reset |= {x for x in v if isinstance(x, str)}
    root_reset = "_XmlPart__root" in reset
    tree_reset = "_XmlPart__tree" in reset
    ok = root_reset and not tree_reset
    ctx.instance("R10e", f"{g.file}:{g.ident}", f"attributes reset in the clone: {sorted(reset)} (root must be reset — it is derived from the tree — and the tree copied)",
                 ok=ok, nontrivial=True)
    if not ok:
        why = "the cached root (a wrapper of the old tree's root) is deep-copied while the tree it belongs to is reset" if (tree_reset and not root_reset) else \
            ("both are reset: edits of the parsed part are dropped" if tree_reset else "the cached root is copied separately from the tree copy")
        ctx.report("R10e", g, g.node, f"XmlPart.clone resets {sorted(reset)}",
                   f"XmlPart.clone: {why}; clone.root and clone.serialize() then disagree, or the clone lacks the edits")


def r10g(ctx):
    """What a clone is given is a copy.

    The `clone` properties that rebuild an object attribute by attribute (`setattr(clone, name, V)`) and Element.clone (which hangs the copy
    under a holder element) must hand the clone nothing that the original — or any other clone — still holds: V is a `.clone`, a
    `deepcopy(...)`, a constant, a new display, or a local that is one of those on every path; the holder element of Element.clone is built
    inside the call.  An alias on one branch (`setattr(clone, name, self.container)`) makes original and clone share mutable state; a
    module-level holder makes all clones siblings in one tree, where absolute XPath reads of one clone see another.
    """
    from ..paths import reaching_defs
    repo = ctx.repo
    ctx.rule("R10g", "clone builders hand the clone only copies (setattr values, holder element of Element.clone)", floor=5)

    def fresh(f, cfg, e, at, depth=0) -> bool:
        if isinstance(e, ast.Constant):
            return True
        if isinstance(e, (ast.Dict, ast.List, ast.Set, ast.Tuple)):
            return all(fresh(f, cfg, x, at, depth + 1) for x in (e.elts if not isinstance(e, ast.Dict) else list(e.keys) + list(e.values)) if x is not None)
        if isinstance(e, ast.Attribute) and e.attr == "clone":
            return True
        if isinstance(e, ast.Call) and call_name(e) == "deepcopy":
            return True
        if isinstance(e, ast.Call) and call_name(e) in ("dict", "list", "set") and isinstance(e.func, ast.Name):
            return True  # a new (shallow) collection: R10a decides whether shallow is enough for the class at hand
        if isinstance(e, ast.Call) and isinstance(e.func, ast.Name) and e.func.id[:1].isupper():
            return True  # a constructor call
        if isinstance(e, ast.Call) and call_name(e) in ("lxml_Element", "Element", "SubElement", "__new__"):
            return True
        if isinstance(e, ast.Name) and depth < 4:
            rd = reaching_defs(cfg, e.id).get(node_of(cfg, at).id, frozenset())
            byid = {n.id: n for n in cfg.nodes}
            if not rd or cfg.entry.id in rd:
                return False
            for d in rd:
                st = byid[d].stmt
                if not (isinstance(st, ast.Assign) and len(st.targets) == 1 and isinstance(st.targets[0], ast.Name)):
                    return False
                if not fresh(f, cfg, st.value, st, depth + 1):
                    return False
            return True
        return False

    n = 0
    for f in repo.all_funcs():
        if f.name != "clone" or f.kind == "setter":
            continue
        cfg = cfg_of(f)
        sets = [c for c in walk_no_nested(f.node) if isinstance(c, ast.Call) and call_name(c) == "setattr" and len(c.args) == 3 and isinstance(c.args[0], ast.Name) and c.args[0].id != "self"]
        for c in sets:
            n += 1
            ok = fresh(f, cfg, c.args[2], c)
            ctx.instance("R10g", f"{f.file}:{f.ident}", f"{norm(c, 60)}: " + ("a copy" if ok else "NOT a copy on every path"), ok=ok, nontrivial=True, line=c.lineno)
            if not ok:
                ctx.report("R10g", f, c, norm(c, 70),
                           f"{f.ident} gives the clone `{norm(c.args[2], 40)}`, which is not a copy: original and clone share that object, so a change made through one "
                           f"shows in the other (for a part: set_part/del_part on the clone's container alter the original document)")
    # Element.clone: the holder the copy is appended to is built in the call
    e = repo.func("Element.clone", "getter")
    cfg = cfg_of(e)
    apps = [c for c in walk_no_nested(e.node) if isinstance(c, ast.Call) and call_name(c) == "append" and isinstance(c.func, ast.Attribute)]
    for c in apps:
        n += 1
        recv = c.func.value
        ok = isinstance(recv, ast.Name) and fresh(e, cfg, recv, c)
        ctx.instance("R10g", f"{e.file}:{e.ident}", f"{norm(c, 50)}: holder " + ("built in this call" if ok else "is NOT local to this call"), ok=ok, nontrivial=True, line=c.lineno)
        if not ok:
            ctx.report("R10g", e, c, norm(c, 60),
                       "Element.clone hangs every copy under one shared holder element: all clones of a process are siblings in one tree, so a property that reads with an "
                       "absolute XPath (//dc:creator, //office:body/*[1] …) returns the node of an earlier clone, and its setter writes into that clone")
    if n == 0:
        raise AnalysisError("R10g: no clone builder found")


PRIMITIVE_ATTACH = {"_append", "append", "insert", "extend", "extend_cells", "extend_rows", "_Element__append"}


def r10h(ctx):
    """clone=True means: the table keeps a copy, the caller keeps the original.

    Setters of Table and Row take the caller's row / cell objects and a `clone` flag (default True).  Under clone=True what is attached to
    the table must be a copy, so that later edits of the caller's object do not reach the table (and attaching does not pull the node out
    of wherever it was).  Rule, per method with a `clone` parameter and an item parameter: every call that attaches the item either
    forwards the flag (`clone=clone`) to a callee that has one, or — for a primitive attach (append/insert/extend/extend_cells …) — is
    reached only when the flag is false (`clone is False` / `not clone` in force) or after the item was re-bound to its `.clone` under
    the flag.
    """
    repo = ctx.repo
    ctx.rule("R10h", "setters with a clone flag attach a copy whenever the flag may be true", floor=10)
    n = 0
    for cname in ("Table", "Row"):
        c = repo.cls(cname)
        for name, fs in sorted(c.methods.items()):
            f = fs[0]
            params = [a.arg for a in f.all_params()]
            if "clone" not in params or name.lstrip("_").startswith("get") or name.startswith("_get"):
                continue
            items = [a.arg for a in f.all_params() if a.arg not in ("self", "clone") and a.annotation is not None
                     and any(k in ast.unparse(a.annotation) for k in ("Row", "Cell", "Column"))]
            if not items:
                continue
            # elements of an item collection (for cell in cells)
            elems = set(items)
            for lp in [x for x in walk_no_nested(f.node) if isinstance(x, ast.For) and isinstance(x.target, ast.Name)]:
                if any(isinstance(y, ast.Name) and y.id in elems for y in ast.walk(lp.iter)):
                    elems.add(lp.target.id)
            # `x = x.clone` under the flag — and the other conditions that copy is subject to (it protects only the attaches that are under them too)
            clone_sites = {}
            for a in walk_no_nested(f.node):
                if isinstance(a, ast.Assign) and isinstance(a.targets[0], ast.Name) and isinstance(a.value, ast.Attribute) and a.value.attr == "clone" \
                        and isinstance(a.value.value, ast.Name) and a.value.value.id == a.targets[0].id:
                    gs_ = structural_guards(a, stop=f.node)
                    if any(pol and isinstance(t, ast.Name) and t.id == "clone" for t, pol in gs_):
                        nm_ = a.targets[0].id
                        # (a test of the item itself — `item is None`, `not item` — only separates the arm that builds a fresh one)
                        clone_sites[nm_] = {(ast.unparse(t), pol) for t, pol in gs_ if not (isinstance(t, ast.Name) and t.id == "clone")
                                            and not {x.id for x in ast.walk(t) if isinstance(x, ast.Name)} <= {nm_}}
            cloned_under_flag = set(clone_sites)
            for call in [x for x in walk_no_nested(f.node) if isinstance(x, ast.Call)]:
                args = list(call.args) + [k.value for k in call.keywords if k.arg != "clone"]
                passed = [a for a in args if isinstance(a, ast.Name) and a.id in elems]
                if not passed:
                    continue
                cn = call_name(call)
                g = c.lookup(cn) or repo.find_func(f"element_cached:{cn}")
                has_flag = g is not None and any(a.arg == "clone" for a in g.all_params())
                if not has_flag and cn not in PRIMITIVE_ATTACH:
                    continue
                n += 1
                gs = structural_guards(call, stop=f.node)
                here = {(ast.unparse(t), pol) for t, pol in gs}
                cloned_under_flag = {k for k, extra in clone_sites.items() if extra <= here}

                def flag_false(t, pol):
                    # `clone is False` taken, `not clone` taken, `clone` not taken
                    if isinstance(t, ast.UnaryOp) and isinstance(t.op, ast.Not):
                        return flag_false(t.operand, not pol)
                    if isinstance(t, ast.BoolOp) and isinstance(t.op, ast.Or) and not pol:
                        return any(flag_false(v, False) for v in t.values)
                    if isinstance(t, ast.BoolOp) and isinstance(t.op, ast.And) and pol:
                        return any(flag_false(v, True) for v in t.values)
                    if isinstance(t, ast.Compare) and len(t.ops) == 1 and isinstance(t.left, ast.Name) and t.left.id == "clone" and isinstance(t.comparators[0], ast.Constant):
                        if isinstance(t.ops[0], (ast.Is, ast.Eq)) and t.comparators[0].value is False:
                            return pol
                        if isinstance(t.ops[0], (ast.Is, ast.Eq)) and t.comparators[0].value is True:
                            return not pol
                    if isinstance(t, ast.Name) and t.id == "clone":
                        return not pol
                    return False

                why = None
                if has_flag:
                    fw = [k.value for k in call.keywords if k.arg == "clone"]
                    gp = [a.arg for a in g.all_params()]
                    pos = gp.index("clone") - (1 if gp and gp[0] == "self" else 0)
                    if not fw and pos < len(call.args):
                        fw = [call.args[pos]]
                    if not fw:
                        ok = True  # the callee's own default (True) applies: it copies
                    else:
                        v = fw[0]
                        ok = (isinstance(v, ast.Name) and v.id == "clone") or (isinstance(v, ast.Constant) and v.value is True) \
                            or any(flag_false(t, pol) for t, pol in gs) or all(a.id in cloned_under_flag for a in passed) \
                            or (isinstance(v, ast.Constant) and v.value is False and all(_fresh_local(f, a) for a in passed))
                        if not ok:
                            why = f"passes clone={norm(v, 20)} although the caller's flag may be true"
                else:
                    ok = any(flag_false(t, pol) for t, pol in gs) or all(a.id in cloned_under_flag for a in passed)
                    if not ok:
                        why = "a primitive attach that copies nothing, reachable with the flag true"
                ctx.instance("R10h", f"{f.file}:{f.ident}", f"{norm(call, 50)}: " + ("copy or flag forwarded" if ok else why), ok=ok, nontrivial=True, line=call.lineno)
                if not ok:
                    ctx.report("R10h", f, call, norm(call, 60),
                               f"{cname}.{name}(clone=True) can attach the caller's own object ({why}): the table then holds the very node the caller keeps — later edits of "
                               f"it change the table, and passing the same list to a second row moves the nodes out of the first")
    # a method WITHOUT a flag of its own copies by contract (the callee's default): it may pass clone=False only for an object it made or read itself,
    # never for one of its own parameters (the caller's object would be attached — moved if it already sits in a table — while the maps count a new item).
    # Private helpers may forward their parameter; they then count as attaching that parameter for their own callers (fixpoint over helper summaries).
    attach: dict[str, set[int]] = {}   # private helper name -> indexes (self excluded) of parameters it attaches without a copy
    infos = []
    for cname in ("Table", "Row"):
        c = repo.cls(cname)
        for name, fs in sorted(c.methods.items()):
            f = fs[0]
            params = [a.arg for a in f.all_params()]
            if "clone" in params or f.kind in ("getter", "nested"):
                continue
            plist = [a.arg for a in f.all_params() if a.arg != "self"]
            items = {a.arg for a in f.all_params() if a.arg not in ("self",) and (a.annotation is None or any(k in ast.unparse(a.annotation) for k in ("Row", "Cell", "Column", "Element")))}
            if not items:
                continue
            elems = set(items)
            origin = {i: i for i in items}
            for lp in [x for x in walk_no_nested(f.node) if isinstance(x, ast.For) and isinstance(x.target, ast.Name)]:
                src = [y.id for y in ast.walk(lp.iter) if isinstance(y, ast.Name) and y.id in elems]
                if src:
                    elems.add(lp.target.id)
                    origin[lp.target.id] = origin.get(src[0], src[0])
            rebound = {t.id for a in walk_no_nested(f.node) if isinstance(a, ast.Assign) for t in a.targets if isinstance(t, ast.Name)}
            # locals that hold the caller's items in another wrapping: `it = iter(cells)`, `cell = cells[y]`, `pairs = zip(rows, cells)`
            for _ in range(3):
                for a in walk_no_nested(f.node):
                    if isinstance(a, ast.Assign) and len(a.targets) == 1 and isinstance(a.targets[0], ast.Name) and a.targets[0].id not in elems:
                        v = a.value
                        wraps = isinstance(v, ast.Call) and call_name(v) in ("iter", "list", "tuple", "zip", "enumerate", "reversed", "next") or isinstance(v, ast.Subscript)
                        src = [y.id for y in ast.walk(v) if isinstance(y, ast.Name) and y.id in elems]
                        if wraps and src:
                            elems.add(a.targets[0].id)
                            origin[a.targets[0].id] = origin.get(src[0], src[0])
                            rebound.discard(a.targets[0].id)
            infos.append((cname, c, name, f, plist, elems, origin, rebound))

    def handed_over(c, f, elems, rebound):
        """(call, passed Name) for every call of f that attaches one of `elems` without a copy"""
        out = []
        for call in [x for x in walk_no_nested(f.node) if isinstance(x, ast.Call)]:
            cn = call_name(call)
            if cn.lstrip("_").startswith("get"):
                continue
            g = c.lookup(cn) or repo.cls("Row").lookup(cn) or repo.cls("Table").lookup(cn)
            if g is None:
                continue
            kw_false = any(k.arg == "clone" and isinstance(k.value, ast.Constant) and k.value.value is False for k in call.keywords)
            if kw_false:
                args = list(call.args) + [k.value for k in call.keywords if k.arg != "clone"]
                out += [(call, a) for a in args if isinstance(a, ast.Name) and a.id in elems and a.id not in rebound]
                for a in args:
                    if isinstance(a, (ast.Call, ast.Subscript)) and (not isinstance(a, ast.Call) or call_name(a) == "next"):
                        inner = [y for y in ast.walk(a) if isinstance(y, ast.Name) and y.id in elems and y.id not in rebound]
                        if inner:
                            out.append((call, inner[0]))
            elif cn in attach:
                out += [(call, a) for i, a in enumerate(call.args) if i in attach[cn] and isinstance(a, ast.Name) and a.id in elems and a.id not in rebound]
        return out

    for _ in range(4):
        changed = False
        for cname, c, name, f, plist, elems, origin, rebound in infos:
            if not name.startswith("_") or name.startswith("__"):
                continue
            for call, a in handed_over(c, f, elems, rebound):
                root = origin.get(a.id, a.id)
                if root in plist and plist.index(root) not in attach.setdefault(name, set()):
                    attach[name].add(plist.index(root))
                    changed = True
        if not changed:
            break
    for cname, c, name, f, plist, elems, origin, rebound in infos:
        if name.startswith("_") and not name.startswith("__"):
            continue
        calls_kw = [x for x in walk_no_nested(f.node) if isinstance(x, ast.Call) and (any(k.arg == "clone" and isinstance(k.value, ast.Constant) and k.value.value is False for k in x.keywords)
                                                                                  or call_name(x) in attach)]
        bad = {id(call): a for call, a in handed_over(c, f, elems, rebound)}
        for call in calls_kw:
            if call_name(call).lstrip("_").startswith("get"):
                continue
            n += 1
            a = bad.get(id(call))
            ok = a is None
            ctx.instance("R10h", f"{f.file}:{f.ident}", f"{norm(call, 50)}: " + ("own object handed over without a copy" if ok else f"the caller's `{a.id}` handed over without a copy"),
                         ok=ok, nontrivial=True, line=call.lineno)
            if not ok:
                ctx.report("R10h", f, call, norm(call, 60),
                           f"{cname}.{name} has no clone flag, so its contract is the callee's default (a copy is stored); it hands its own parameter `{a.id}` to "
                           f"`{call_name(call)}` without a copy: the caller's object itself is attached — if it already sits in a table lxml moves it while the position map counts a "
                           f"new item, and later edits of it reach the table")
    # the set_/insert_/append_ shortcuts without a flag: handing the caller's objects to a primitive attach (extend_cells, extend, append, insert: lxml moves
    # the node) is the same hand-over without a copy, whatever the parameter is annotated as (`cells: list`).  The extend_* primitives themselves and the generic
    # Table.append are the documented low-level way to attach an object as it is.
    for cname in ("Table", "Row"):
        c = repo.cls(cname)
        for name, fs in sorted(c.methods.items()):
            f = fs[0]
            if f.cls is not c or name == "append" or not name.startswith(("set_", "insert_", "append_")) or f.kind in ("getter", "setter", "nested"):
                continue
            params = {a.arg for a in f.all_params()} - {"self"}
            if "clone" in params:
                continue
            def _default_for_none(a, nm):
                return any(pol and isinstance(t, ast.Compare) and len(t.ops) == 1 and isinstance(t.ops[0], ast.Is) and isinstance(t.left, ast.Name) and t.left.id == nm
                           and isinstance(t.comparators[0], ast.Constant) and t.comparators[0].value is None for t, pol in structural_guards(a, stop=f.node))

            rebound = {t.id for a in walk_no_nested(f.node) if isinstance(a, ast.Assign) for t in a.targets if isinstance(t, ast.Name) and not _default_for_none(a, t.id)}
            carried = {p_ for p_ in params if p_ not in rebound}
            for lp in [x for x in walk_no_nested(f.node) if isinstance(x, ast.For) and isinstance(x.target, ast.Name)]:
                if any(isinstance(y, ast.Name) and y.id in carried for y in ast.walk(lp.iter)):
                    carried.add(lp.target.id)
            for call in [x for x in walk_no_nested(f.node) if isinstance(x, ast.Call) and call_name(x) in PRIMITIVE_ATTACH and isinstance(x.func, ast.Attribute)]:
                recv = x_recv = call.func.value
                # the receiver is the table/row itself or a row/cell object built or read here — not a plain list
                is_list = isinstance(recv, ast.Name) and any(isinstance(a, (ast.Assign, ast.AnnAssign)) and isinstance(getattr(a, "value", None), (ast.List, ast.ListComp, ast.Dict, ast.Set))
                                                               and any(isinstance(t, ast.Name) and t.id == recv.id for t in (a.targets if isinstance(a, ast.Assign) else [a.target]))
                                                               for a in walk_no_nested(f.node))
                if is_list:
                    continue
                direct = [a for a in call.args if isinstance(a, ast.Name) and a.id in carried]
                n += 1
                ok = not direct
                ctx.instance("R10h", f"{f.file}:{f.ident}", f"{norm(call, 50)}: " + ("attaches what the method built or copied" if ok else f"attaches the caller's `{direct[0].id}` itself"),
                             ok=ok, nontrivial=True, line=call.lineno)
                if not ok:
                    ctx.report("R10h", f, call, norm(call, 60),
                               f"{cname}.{name} has no clone flag and hands its own parameter `{direct[0].id}` to the primitive `{call_name(call)}`, which attaches the objects as they are: "
                               f"lxml moves each node out of wherever it was (the caller's other table loses those cells), and one object given several times ends up in the row once")
    if n == 0:
        raise AnalysisError("R10h: no setter with a clone flag found")


def _fresh_local(f, name_node) -> bool:
    """the local was re-bound to a constructor result in this function (e.g. `cell = Cell()` when none was given)"""
    # … on every path: a constructor call that only replaces a missing argument (`if cell is None: cell = Cell()`) leaves the caller's object in place when one was given
    def only_for_none(a):
        return any({x.id for x in ast.walk(t) if isinstance(x, ast.Name)} <= {name_node.id} for t, _pol in structural_guards(a, stop=f.node))

    return any(isinstance(a, ast.Assign) and isinstance(a.targets[0], ast.Name) and a.targets[0].id == name_node.id and isinstance(a.value, ast.Call)
               and isinstance(a.value.func, ast.Name) and a.value.func.id[:1].isupper() and not only_for_none(a) for a in walk_no_nested(f.node))


def r10i(ctx):
    """A part keeps hold of its tree in one place.

    XmlPart.clone copies the attributes of a part one by one: the parsed tree is deep-copied, the root wrapper (derived from the tree) is
    reset and rebuilt on demand, the container is cloned.  Any *other* attribute that holds a node of the tree — a cached `office:meta`
    element, a remembered body — is deep-copied on its own and becomes a detached copy: the clone's setters that go through it write into
    a node that is not in the clone's tree, and what they add is lost.  Rule: no method of XmlPart or of a class derived from it stores a
    tree value (the result of get_element(s), root, body, an lxml node) in an attribute of self, except the two attributes clone handles.
    """
    repo = ctx.repo
    ctx.rule("R10i", "XmlPart classes keep no node of their tree in an instance attribute other than the tree and root that clone handles", floor=20)
    base = repo.cls("XmlPart")
    handled = {"__tree", "__root", "_XmlPart__tree", "_XmlPart__root", "container", "part_name"}
    TREE_CALLS = ("get_element", "get_elements", "get_meta_body", "get_body", "getroot", "from_tag", "xpath", "_get_tree")
    for c in repo.all_classes():
        if base not in c.mro:
            continue
        for name, fs in sorted(c.methods.items()):
            for f in fs:
                if f.cls is not c or name in ("clone",):
                    continue
                bad = []
                for a in walk_no_nested(f.node):
                    tg = a.targets if isinstance(a, ast.Assign) else [a.target] if isinstance(a, ast.AnnAssign) and a.value is not None else []
                    for t in tg:
                        if isinstance(t, ast.Attribute) and isinstance(t.value, ast.Name) and t.value.id == "self" and t.attr not in handled:
                            v = a.value
                            treeish = any(isinstance(x, ast.Call) and call_name(x) in TREE_CALLS for x in ast.walk(v)) or \
                                any(isinstance(x, ast.Attribute) and x.attr in ("root", "body", "meta_body") and isinstance(x.value, ast.Name) and x.value.id == "self" for x in ast.walk(v))
                            if treeish:
                                bad.append(a)
                ctx.instance("R10i", f"{f.file}:{f.ident}", "stores no node of the tree on self", ok=not bad, nontrivial=bool(bad), line=f.node.lineno)
                for a in bad[:1]:
                    ctx.report("R10i", f, a, norm(a, 60),
                               f"{f.ident} keeps a node of the part's tree in an attribute of the part (`{norm(a, 50)}`): XmlPart.clone deep-copies that attribute separately from the "
                               f"tree, so in the clone it is a detached copy — what the clone's setters add through it never reaches the clone's document")


def r10j(ctx):
    """What a parsed part knows beyond its bytes is carried into the clone of the document.

    Document.clone does not copy the parsed parts: it serialises each into the cloned container and lets the clone parse them again on
    demand.  Everything a part holds in its tree survives that; an instance attribute that is *not* derived from the bytes does not — the
    clone's part is a new object with the constructor's defaults.  Today there is one: `Meta._generator_modified` ("the caller chose a
    generator, do not stamp ours at save"): without it the clone, saved, carries another `meta:generator` than the original — equal at
    birth, different on disk.  Rule: for every attribute that a class derived from XmlPart assigns on itself (the tree, root, container and
    part name of XmlPart aside), Document.clone either clones the parsed parts themselves or names that attribute.
    """
    repo = ctx.repo
    ctx.rule("R10j", "every attribute a parsed part keeps outside its bytes is carried over by Document.clone", floor=1)
    base = repo.cls("XmlPart")
    f = repo.func("Document.clone", "getter") if repo.find_func("Document.clone", "getter") else repo.func("Document.clone")
    clones_parts = False  # Document.clone rebuilds the parts from bytes (R10e); a version that clones the part objects would need this rule rewritten
    named = {x.attr for x in walk_no_nested(f.node) if isinstance(x, ast.Attribute)}
    n = 0
    for c in repo.all_classes():
        if c is base or base not in c.mro:
            continue
        attrs = {}
        for name, fs in c.methods.items():
            for g in fs:
                if g.cls is not c:
                    continue
                for a in walk_no_nested(g.node):
                    tg = a.targets if isinstance(a, ast.Assign) else [a.target] if isinstance(a, ast.AnnAssign) and a.value is not None else []
                    for t in tg:
                        if isinstance(t, ast.Attribute) and isinstance(t.value, ast.Name) and t.value.id == "self" and c.lookup(t.attr) is None:
                            attrs.setdefault(t.attr, (g, a))  # (a name the class defines is a property: the store goes through its setter, into the tree)
        for attr, (g, a) in sorted(attrs.items()):
            n += 1
            ok = clones_parts or attr in named
            ctx.instance("R10j", f"{g.file}:{c.name}.{attr}", "carried over by Document.clone", ok=ok, nontrivial=True, line=a.lineno)
            if not ok:
                ctx.report("R10j", f, f.node, f"{c.name}.{attr} not carried",
                           f"{c.name} keeps `{attr}` on the part object (`{norm(a, 50)}` in {g.ident}) and Document.clone rebuilds the parts of the copy from their bytes without carrying "
                           f"that attribute over: the clone starts with the constructor's default, so the two documents, equal in memory, are saved differently")
    if n < 1:
        raise AnalysisError("R10j: no part-level attribute found in the XmlPart classes")


def run(ctx):
    r10a(ctx)
    r10b(ctx)
    r10c(ctx)
    r10d(ctx)
    r10f(ctx)
    r10g(ctx)
    r10h(ctx)
    r10i(ctx)
    r10j(ctx)
    r10e(ctx)
    # a clone that receives the wrapper indexes of its source (instead of new empty dicts) reads and writes the source's rows through them (rule shared with C02)
    from .c02 import r02f
    r02f(ctx)
    from .round12 import r10k
    r10k(ctx)


from ..selftest import Seed, unparse_seed  # noqa: E402

_R = "src/odfdo/row.py"
_T = "src/odfdo/table.py"
_CT = "src/odfdo/container.py"
_DOC = "src/odfdo/document.py"
_XP = "src/odfdo/xmlpart.py"
_EL = "src/odfdo/element.py"
SEEDS = [
    Seed("_parse_folder walks into the bare entry name", "fault", "src/odfdo/container.py",
         "                sub_parts = self._parse_folder(str(relative_path))", "                sub_parts = self._parse_folder(path.name)", "R10k"),
    Seed("_parse_folder walks into the posix form of the relative path", "neutral", "src/odfdo/container.py",
         "                sub_parts = self._parse_folder(str(relative_path))", "                sub_parts = self._parse_folder(relative_path.as_posix())"),
    Seed("Table.append_cell no longer copies the cell it then attaches with clone=False", "fault", _T,
         "        if clone:\n            cell = cell.clone\n        y = self._translate_y_from_any(y)\n        row = self._get_row2(y)", "        y = self._translate_y_from_any(y)\n        row = self._get_row2(y)", "R10h"),
    Seed("Row.append_cell copies the cell only when no repeat was handed in", "fault", _R,
         "        if clone:\n            cell = cell.clone\n        self._append(cell)\n        if _repeated is None:\n            _repeated = cell.repeated or 1",
         "        if _repeated is None:\n            if clone:\n                cell = cell.clone\n            _repeated = cell.repeated or 1\n        self._append(cell)", "R10h"),
    Seed("set_row_cells hands the caller's cells to extend_cells as they are", "fault", _T,
         "        row.extend_cells([cell.clone for cell in cells])", "        row.extend_cells(cells)", "R10h"),
    Seed("set_row_cells copies the cells in a loop", "neutral", _T,
         "        row.extend_cells([cell.clone for cell in cells])", "        copies = []\n        for cell in cells:\n            copies.append(cell.clone)\n        row.extend_cells(copies)"),
    Seed("Document.clone forgets that the generator was chosen", "fault", _DOC,
         "        meta = self.__xmlparts.get(ODF_META)\n        if meta is not None and meta._generator_modified:  # type: ignore\n            # not stored in the bytes of the part: the generator was chosen\n            clone.meta._generator_modified = True\n        return clone",
         "        return clone", "R10j"),
    Seed("Table.append hands the caller's row over without a copy", "fault", _T, "            self.append_row(something)", "            self.append_row(something, clone=False)", "R10h"),
    Seed("Table.append hands the caller's row over through a private helper", "fault", _T, "            self.append_row(something)", "            self._append_live(something)", "R10h",
         edits=[(_T, "    @property\n    def height(self) -> int:", "    def _append_live(self, row: Row) -> None:\n        self.append_row(row, clone=False)\n\n    @property\n    def height(self) -> int:")]),
    Seed("set_column_cells attaches the caller's cells through an iterator", "fault", _T,
         "            row.set_cell(x, next(cells_iterator))\n            self.set_row(y, row)", "            row.set_cell(x, next(cells_iterator), clone=False)\n            self.set_row(y, row, clone=False)", "R10h"),
    Seed("Container.clone pre-loads the zip only when the table looks short", "fault", _CT,
         "            self._get_all_zip_part()\n", "            if len(self.__parts) < len(self.get_parts()):\n                self._get_all_zip_part()\n", "R10d"),
    Seed("Meta caches its office:meta element on the part", "fault", "src/odfdo/meta.py",
         '        return self.get_element("//office:meta")', '        if getattr(self, "_meta_body", None) is None:\n            self._meta_body = self.get_element("//office:meta")\n        return self._meta_body', "R10i"),
    Seed("Table.append copies explicitly", "neutral", _T, "            self.append_row(something)", "            self.append_row(something, clone=True)"),
    Seed("Row.set_cells fast path no longer asks for clone is False", "fault", _R,
         "        if start == 0 and clone is False and (len(cells) >= self.width):", "        if start == 0 and len(cells) >= self.width:", "R10h"),
    Seed("Table.append_row appends the caller's row", "fault", _T, "        elif clone:\n            row = row.clone\n        # Appending a repeated row accepted", "        # Appending a repeated row accepted", "R10h"),
    Seed("Row.set_cells: flag tested the other way round", "neutral", _R,
         "        if start == 0 and clone is False and (len(cells) >= self.width):", "        if not clone and start == 0 and (len(cells) >= self.width):"),
    Seed("XmlPart.clone shares the container once the part is parsed", "fault", "src/odfdo/xmlpart.py",
         "                setattr(clone, name, self.container.clone)\n",
         "                if self.__tree is None:\n                    setattr(clone, name, self.container.clone)\n                else:\n                    setattr(clone, name, self.container)\n", "R10g"),
    Seed("XmlPart.clone copies the other attributes by reference", "fault", "src/odfdo/xmlpart.py",
         "                value = getattr(self, name)\n                value = deepcopy(value)\n                setattr(clone, name, value)", "                value = getattr(self, name)\n                setattr(clone, name, value)", "R10g"),
    Seed("Element.clone hangs the copy under a module-level holder", "fault", _EL,
         '        root = lxml_Element("ROOT", nsmap=ODF_NAMESPACES)\n        root.append(clone)\n        return self.from_tag(clone)',
         '        _xpath_text.holder = getattr(_xpath_text, "holder", None)\n        _CLONE_ROOT.append(clone)\n        return self.from_tag(clone)', "R10g",
         edits=[(_EL, "_class_registry: dict[str, type[Element]] = {}\n", '_class_registry: dict[str, type[Element]] = {}\n_CLONE_ROOT = lxml_Element("ROOT", nsmap=ODF_NAMESPACES)\n')]),
    Seed("XmlPart.clone copies in one expression", "neutral", "src/odfdo/xmlpart.py",
         "                value = getattr(self, name)\n                value = deepcopy(value)\n                setattr(clone, name, value)", "                setattr(clone, name, deepcopy(getattr(self, name)))"),
    Seed("Row.clone shares the cell map", "fault", _R, "        clone._rmap = self._rmap[:]", "        clone._rmap = self._rmap", "R10a"),
    Seed("Row.clone forgets y", "fault", _R, "        clone.y = self.y\n        clone._rmap", "        clone._rmap", "R10a"),
    Seed("Cell.clone forgets x", "fault", "src/odfdo/cell.py", "        clone.y = self.y\n        clone.x = self.x\n", "        clone.y = self.y\n", "R10a"),
    Seed("Row cache only for new rows", "fault", _R,
         "        self._indexes[\"_rmap\"] = {}\n        self._compute_row_cache()\n        self._tmap = []\n        self._cmap = []\n        if self._do_init:",
         "        self._indexes[\"_rmap\"] = {}\n        self._rmap = []\n        self._tmap = []\n        self._cmap = []\n        if self._do_init:", "R10b"),
    Seed("Table cache only for new tables", "fault", _T,
         "                    row = Row(width)\n                    self._append(row)\n        self._compute_table_cache()", "                    row = Row(width)\n                    self._append(row)\n            self._compute_table_cache()", "R10b"),
    Seed("Element.clone wraps the live node", "fault", _EL,
         "        clone = deepcopy(self.__element)\n        root = lxml_Element(\"ROOT\", nsmap=ODF_NAMESPACES)\n        root.append(clone)\n        return self.from_tag(clone)",
         "        return self.from_tag(self.__element)", "R10c"),
    Seed("Container.clone skips the zip pre-load", "fault", _CT,
         "        if self.path and self.__packaging == ZIP:\n            self._get_all_zip_part()\n        elif self.path and self.__packaging == FOLDER:",
         "        if self.path and self.__packaging == FOLDER:", "R10d"),
    Seed("Container.clone forgets folder parts again", "fault", _CT,
         "        elif self.path and self.__packaging == FOLDER:\n            for path in self._get_folder_parts():\n                if path not in self.__parts:\n                    self.get_part(path)\n", "", "R10d"),
    Seed("Container.clone keeps the path", "fault", _CT, "        clone = deepcopy(self)\n        clone.path = None\n", "        clone = deepcopy(self)\n", "R10d"),
    Seed("Container.clone pre-loads after the copy", "fault", _CT,
         "        if self.path and self.__packaging == ZIP:\n            self._get_all_zip_part()\n        elif self.path and self.__packaging == FOLDER:\n            for path in self._get_folder_parts():\n                if path not in self.__parts:\n                    self.get_part(path)\n        clone = deepcopy(self)\n        clone.path = None",
         "        clone = deepcopy(self)\n        clone.path = None\n        if self.path and self.__packaging == ZIP:\n            self._get_all_zip_part()\n        elif self.path and self.__packaging == FOLDER:\n            for path in self._get_folder_parts():\n                if path not in self.__parts:\n                    self.get_part(path)", "R10d"),
    Seed("zip pre-load overwrites in-memory parts again", "fault", _CT,
         "                    upath = normalize_path(name)\n                    if upath not in self.__parts:\n                        self.__parts[upath] = zf.read(name)\n        except BadZipfile:\n            pass",
         "                    upath = normalize_path(name)\n                    self.__parts[upath] = zf.read(name)\n        except BadZipfile:\n            pass", "R10f"),
    Seed("zip pre-load re-reads parts whose entry is None (deleted), through an alias", "fault", _CT,
         "                    upath = normalize_path(name)\n                    if upath not in self.__parts:\n                        self.__parts[upath] = zf.read(name)\n        except BadZipfile:\n            pass",
         "                    upath = normalize_path(name)\n                    parts = self.__parts\n                    if parts.get(upath) is None:\n                        parts[upath] = zf.read(name)\n        except BadZipfile:\n            pass", "R10f"),
    Seed("zip pre-load via dict.update", "fault", _CT,
         "                    upath = normalize_path(name)\n                    if upath not in self.__parts:\n                        self.__parts[upath] = zf.read(name)\n        except BadZipfile:\n            pass",
         "                    upath = normalize_path(name)\n                    self.__parts.update({upath: zf.read(name)})\n        except BadZipfile:\n            pass", "R10f"),
    Seed("zip pre-load through an alias, early continue", "neutral", _CT,
         "                    upath = normalize_path(name)\n                    if upath not in self.__parts:\n                        self.__parts[upath] = zf.read(name)\n        except BadZipfile:\n            pass",
         "                    upath = normalize_path(name)\n                    parts = self.__parts\n                    if upath in parts:\n                        continue\n                    parts[upath] = zf.read(name)\n        except BadZipfile:\n            pass"),
    Seed("zip pre-load with setdefault", "neutral", _CT,
         "                    upath = normalize_path(name)\n                    if upath not in self.__parts:\n                        self.__parts[upath] = zf.read(name)\n        except BadZipfile:\n            pass",
         "                    upath = normalize_path(name)\n                    self.__parts.setdefault(upath, zf.read(name))\n        except BadZipfile:\n            pass"),
    Seed("Document.clone drops the edits again", "fault", _DOC,
         "                for path, part in self.__xmlparts.items():\n                    if part is not None:\n                        container.set_part(path, part.serialize())\n                setattr(clone, name, container)",
         "                setattr(clone, name, container)", "R10e"),
    Seed("Document.clone flushes into the original container", "fault", _DOC,
         "                        container.set_part(path, part.serialize())\n                setattr(clone, name, container)", "                        container.set_part(path, part.serialize())\n                setattr(clone, name, self.container.clone)", "R10e"),
    Seed("XmlPart.clone resets the tree, copies the root", "fault", _XP, '            elif name == "_XmlPart__root":', '            elif name == "_XmlPart__tree":', "R10e"),
    Seed("XmlPart.clone resets both", "fault", _XP, '            elif name == "_XmlPart__root":', '            elif name in ("_XmlPart__root", "_XmlPart__tree"):', "R10e"),
    unparse_seed(_R), unparse_seed(_CT), unparse_seed(_DOC), unparse_seed(_XP), unparse_seed(_EL), unparse_seed(_T),
    Seed("map copied with list()", "neutral", _R, "        clone._rmap = self._rmap[:]", "        clone._rmap = list(self._rmap)"),
]
