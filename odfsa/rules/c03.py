"""C03 — save and reopen loses nothing (structural clauses).

R03a  Container.save loads every unread part before any writer runs
R03b  Document.save re-serialises every parsed part into the container before container.save
R03c  _save_zip writes each live part exactly once, skips deleted parts; _save_folder likewise
R03d  a raw write of an XML part drops the stale parsed copy (and no-effect statements)
R03e  readers and writers normalise part names alike; serialize() declares UTF-8
"""

from __future__ import annotations

import ast

from ..core import UNKNOWN, AnalysisError, FuncInfo, call_name, enclosing_stmt, get_arg, is_self_attr, norm, parent, walk_no_nested
from ..paths import calls, canon, cfg_of, enclosing_loops, guarded_not_none, node_of, structural_guards

EXPLANATION = (
    "Path queries (dominators / must-pass-through on a statement CFG built from the current source) over "
    "Container.save, Document.save, _save_zip, _save_folder and Document.set_part: the pre-load loop dominates "
    "every writer, the flush loop over the parsed parts is on every path to container.save and filters nothing "
    "but None, each writestr of a named part is paired with its removal from the 'everything else' list, deleted "
    "parts are skipped in every writer loop, and a raw set_part of an XML part deletes the parsed copy. "
    "Infoset equality of serialize() output, byte identity of binaries and the zip/folder readers are not decided."
)
ASSUMPTIONS = [
    "zipfile.ZipFile.writestr and Path.write_bytes store the bytes they are given",
    "lxml tostring/fromstring round-trip the infoset",
]

XML_PART_CONSTS = {"ODF_CONTENT", "ODF_META", "ODF_SETTINGS", "ODF_STYLES", "ODF_MANIFEST"}


def _mentions_attr(e: ast.AST, attr: str) -> bool:
    return any(isinstance(n, ast.Attribute) and n.attr.endswith(attr) for n in ast.walk(e))


def r03a(ctx):
    repo = ctx.repo
    ctx.rule("R03a", "Container.save fetches every part not yet read before any writer is called", floor=3)
    f = repo.func("Container.save")
    cfg = cfg_of(f)
    loops = []
    for n in walk_no_nested(f.node):
        it = n.iter if isinstance(n, ast.For) else None
        if isinstance(it, ast.Name):  # `names = self.parts; for path in names:` — follow a single definition
            ds = [a.value for a in walk_no_nested(f.node) if isinstance(a, ast.Assign) and any(isinstance(t, ast.Name) and t.id == it.id for t in a.targets)]
            it = ds[0] if len(ds) == 1 else it
        if isinstance(n, ast.For) and (_mentions_attr(it, "parts") or call_name(it) == "get_parts") and isinstance(n.target, ast.Name):
            v = n.target.id
            gp = [c for c in ast.walk(n) if isinstance(c, ast.Call) and call_name(c) == "get_part" and c.args and ast.unparse(c.args[0]) == v]
            if not gp:
                continue
            # the only filter allowed: `v not in <the parts dict>`
            guards = structural_guards(gp[0], stop=n)
            okg = all(isinstance(t, ast.Compare) and isinstance(t.ops[0], ast.NotIn) and ast.unparse(t.left) == v and pol
                      for t, pol in guards)
            loops.append((n, okg, guards))
    writers = calls(f, lambda c: call_name(c) in ("_save_as_zip", "_save_as_folder", "_save_as_xml", "_save_zip", "_save_folder", "_save_xml"))
    if not writers:
        ctx.instance("R03a", f"{f.file}:{f.ident}", "a writer is called", ok=False)
        ctx.report("R03a", f, f.node, "Container.save calls no writer", "Container.save no longer reaches _save_as_zip/_save_as_folder/_save_as_xml")
        return
    for w in writers:
        wn = node_of(cfg, w)
        good = [l for l, okg, _ in loops if okg and cfg.dominates(node_of(cfg, l), wn)]
        ctx.instance("R03a", f"{f.file}:{f.ident}", f"pre-load loop dominates {call_name(w)}()", ok=bool(good), nontrivial=True, line=w.lineno)
        if not good:
            why = "no loop over self.parts calling self.get_part(path) dominates it" if not loops or all(okg for _, okg, _ in loops) \
                else "the pre-load loop filters parts by more than `path not in parts`"
            ctx.report("R03a", f, w, f"{call_name(w)}(…) without pre-load",
                       f"writer {call_name(w)} can run while parts never read are still absent from the part table ({why}): "
                       f"they would be missing from the saved package",
                       path=[f"entry -> {call_name(w)} at line {w.lineno}"])


def _flush_loops(f: FuncInfo, serializers=("serialize", "pretty_serialize")):
    """For-loops over self.__xmlparts.items() that write part.serialize() into the container."""
    out = []
    for n in walk_no_nested(f.node):
        if not isinstance(n, ast.For):
            continue
        it = n.iter
        if not (isinstance(it, ast.Call) and call_name(it) == "items" and _mentions_attr(it, "xmlparts")):
            continue
        if not (isinstance(n.target, ast.Tuple) and len(n.target.elts) == 2 and all(isinstance(e, ast.Name) for e in n.target.elts)):
            continue
        pv, xv = n.target.elts[0].id, n.target.elts[1].id
        sp = [c for c in ast.walk(n) if isinstance(c, ast.Call) and call_name(c) == "set_part" and len(c.args) == 2
              and ast.unparse(c.args[0]) == pv and isinstance(c.args[1], ast.Call) and call_name(c.args[1]) in serializers
              and isinstance(c.args[1].func, ast.Attribute) and ast.unparse(c.args[1].func.value) == xv]
        if not sp:
            continue
        guards = structural_guards(sp[0], stop=n)
        bad = [ast.unparse(t) for t, pol in guards if not (_is_not_none(t, pol, xv))]
        out.append((n, sp[0], bad))
    return out


def _is_not_none(t, pol, var):
    from ..paths import is_none_test
    r = is_none_test(t, var)
    return (r is False and pol) or (r is True and not pol)


def r03b(ctx):
    repo = ctx.repo
    ctx.rule("R03b", "Document.save serialises every parsed part into the container on every path to container.save", floor=2)
    f = repo.func("Document.save")
    cfg = cfg_of(f)
    loops = _flush_loops(f)
    saves = calls(f, lambda c: call_name(c) == "save" and isinstance(c.func, ast.Attribute) and "container" in canon(f, c.func.value))
    if not saves:
        ctx.instance("R03b", f"{f.file}:{f.ident}", "container.save is called", ok=False)
        ctx.report("R03b", f, f.node, "Document.save does not call container.save", "Document.save no longer hands the flushed parts to container.save")
        return
    for n, sp, bad in loops:
        ctx.instance("R03b", f"{f.file}:{f.ident}", f"flush loop at line {n.lineno} filters nothing but None", ok=not bad, nontrivial=True, line=n.lineno)
        if bad:
            ctx.report("R03b", f, sp, f"flush filtered by {bad}",
                       f"parsed parts are written back only when {bad}: other edited parts would be saved from stale bytes")
    good = [node_of(cfg, n) for n, _, bad in loops if not bad]
    for s in saves:
        cex = cfg.must_pass(cfg.entry, node_of(cfg, s), good, follow_exc=False)
        ctx.instance("R03b", f"{f.file}:{f.ident}", "every path entry -> container.save passes a flush loop over the parsed parts",
                     ok=cex is None, nontrivial=True, line=s.lineno)
        if cex is not None:
            ctx.report("R03b", f, s, "container.save(…) reachable without flushing the parsed parts",
                       "a path reaches container.save without writing the parsed (possibly edited) XML parts back into the container",
                       path=[repr(x) for x in cex if x.stmt is not None][:12])


def r03c(ctx):
    repo = ctx.repo
    ctx.rule("R03c", "_save_zip/_save_folder write each live part once and skip deleted (None) parts", floor=5)
    f = repo.func("Container._save_zip")
    cfg = cfg_of(f)
    ws = calls(f, lambda c: call_name(c) == "writestr")
    if len(ws) < 3:
        raise AnalysisError("R03c: writestr sites not found in _save_zip")
    # the "everything else" loop: a for over a local list built from the part table keys
    else_loop = None
    for n in walk_no_nested(f.node):
        if isinstance(n, ast.For) and isinstance(n.iter, ast.Name) and isinstance(n.target, ast.Name):
            lst = n.iter.id
            if any(isinstance(a, ast.Assign) and any(isinstance(t, ast.Name) and t.id == lst for t in a.targets)
                   and "keys" in ast.unparse(a.value) for a in walk_no_nested(f.node)):
                else_loop = n
    if else_loop is None:
        ctx.instance("R03c", f"{f.file}:{f.ident}", "a loop writes every remaining part", ok=False)
        ctx.report("R03c", f, f.node, "_save_zip has no loop over the remaining part names",
                   "_save_zip no longer iterates a list built from the keys of the part table: parts other than the named XML parts (pictures, "
                   "objects, thumbnails) are not written")
        return
    lst = else_loop.iter.id
    removes = calls(f, lambda c: call_name(c) == "remove" and isinstance(c.func, ast.Attribute) and ast.unparse(c.func.value) == lst)
    ln = node_of(cfg, else_loop)
    for w in ws:
        name = w.args[0]
        inside_else = any(l is else_loop for l in enclosing_loops(w))
        wn = node_of(cfg, w)
        if inside_else and isinstance(name, ast.Name) and name.id == else_loop.target.id:
            ok = True
            what = f"writestr({ast.unparse(name)}) in the everything-else loop"
        else:
            same = [r for r in removes if r.args and ast.unparse(r.args[0]) == ast.unparse(name)]
            ok = False
            for r in same:
                rn = node_of(cfg, r)
                if cfg.dominates(rn, wn):
                    ok = True
                elif cfg.path_avoiding(wn, ln, [rn], follow_exc=False) is None:
                    ok = True
            # written after the everything-else loop and never in the list: also fine
            if not ok and cfg.dominates(ln, wn) and any(cfg.dominates(node_of(cfg, r), ln) for r in same):
                ok = True
            what = f"writestr({ast.unparse(name)}) paired with {lst}.remove({ast.unparse(name)})"
            if not ok:
                ctx.report("R03c", f, w, f"writestr({ast.unparse(name)}, …) without {lst}.remove",
                           f"part {ast.unparse(name)} is written here but stays in {lst}: the 'everything else' loop writes it a second time "
                           f"(duplicate zip entry)")
        ctx.instance("R03c", f"{f.file}:{f.ident}", what, ok=ok, nontrivial=True, line=w.lineno)
        # deleted parts skipped
        data = w.args[1] if len(w.args) > 1 else None
        for dn_ in sorted({x.id for x in ast.walk(data) if isinstance(x, ast.Name)} if data is not None else ()):
            from_table = any(isinstance(a, ast.Assign) and any(isinstance(t, ast.Name) and t.id == dn_ for t in a.targets)
                             and (isinstance(a.value, ast.Subscript) or (isinstance(a.value, ast.Call) and call_name(a.value) == "get"))
                             for a in walk_no_nested(f.node))
            if not from_table:
                continue
            okn = guarded_not_none(w, dn_, stop=f.node)
            ctx.instance("R03c", f"{f.file}:{f.ident}", f"writestr of {dn_} only when it is not None", ok=okn, line=w.lineno)
            if not okn:
                ctx.report("R03c", f, w, f"writestr(…, {dn_}) unguarded", f"a deleted part ({dn_} is None) reaches writestr")
    g = repo.func("Container._save_folder")
    dumps = calls(g, lambda c: call_name(c) == "dump")
    if not dumps:
        raise AnalysisError("R03c: dump call not found in _save_folder")
    for d in dumps:
        data = d.args[1] if len(d.args) > 1 else None
        names = sorted({x.id for x in ast.walk(data) if isinstance(x, ast.Name)}) if data is not None else []
        okn = bool(names) and all(guarded_not_none(d, nm, stop=g.node) for nm in names)
        loop = enclosing_loops(d)
        okl = bool(loop) and _mentions_attr(loop[-1].iter, "parts")
        ctx.instance("R03c", f"{g.file}:{g.ident}", "folder writer iterates the whole part table and skips None", ok=okn and okl, line=d.lineno)
        if not (okn and okl):
            ctx.report("R03c", g, d, "dump(…) unguarded or not over all parts", "folder save does not skip deleted parts / does not cover the part table")
    # the only reason not to write a part is that it was deleted: neither writer filters by name (a guard on the part's name — a traversal check on '..', an
    # extension list — silently leaves legal members out of the saved package while the manifest still lists them)
    from ..paths import is_none_test
    for fn_, writes in ((f, [w for w in ws if any(l is else_loop for l in enclosing_loops(w))]), (g, dumps)):
        for w in writes:
            lp = enclosing_loops(w)[0] if enclosing_loops(w) else None
            if lp is None:
                continue
            namevars = {x.id for x in ast.walk(lp.target) if isinstance(x, ast.Name)}
            extra = [t for t, _pol in structural_guards(w, stop=lp) if not any(is_none_test(t, nm) is not None for nm in
                                                                               {x.id for x in ast.walk(t) if isinstance(x, ast.Name)}) and
                     {x.id for x in ast.walk(t) if isinstance(x, ast.Name)} & namevars]
            conts = [j for j in ast.walk(lp) if isinstance(j, ast.Continue) for t, _pol in structural_guards(j, stop=lp)
                     if {x.id for x in ast.walk(t) if isinstance(x, ast.Name)} & {x.id for x in ast.walk(lp.target) if isinstance(x, ast.Name)} and
                     not any(is_none_test(t, nm) is not None for nm in {x.id for x in ast.walk(t) if isinstance(x, ast.Name)})]
            okf = not extra and not conts
            ctx.instance("R03c", f"{fn_.file}:{fn_.ident}", f"`{norm(w, 30)}` is not filtered by the part's name", ok=okf, nontrivial=True, line=w.lineno)
            if not okf:
                t0 = extra[0] if extra else conts[0]
                ctx.report("R03c", fn_, t0 if not isinstance(t0, ast.Continue) else t0, f"{fn_.name} filters parts by name",
                           f"{fn_.name} does not write every live part: `{norm(t0, 50)}` leaves members out of the saved package for a reason other than deletion")
    # … nor does the helper that writes one file of the folder: every normal path through it creates the directory or writes the bytes
    for nd in [n for n in ast.walk(g.node) if isinstance(n, ast.FunctionDef) and n is not g.node]:
        rets = [r for r in ast.walk(nd) if isinstance(r, (ast.Return, ast.Raise))]
        wcalls = [c for c in ast.walk(nd) if isinstance(c, ast.Call) and call_name(c) in ("write_bytes", "mkdir", "write", "write_text")]
        okd = not rets and bool(wcalls)
        ctx.instance("R03c", f"{g.file}:{g.ident}.{nd.name}", "the per-file helper writes on every path (no early return)", ok=okd, nontrivial=True, line=nd.lineno)
        if not okd:
            r0 = rets[0] if rets else nd
            ctx.report("R03c", g, r0, f"{nd.name}: {norm(r0, 40)}",
                       f"the folder writer's helper {nd.name}() can leave without writing (`{norm(r0, 40)}`): the part is missing from the saved folder although it is in memory "
                       f"and listed in the manifest")


def r03d(ctx):
    repo = ctx.repo
    ctx.rule("R03d", "raw write of an XML part drops the parsed copy; no statement without effect", floor=1)
    f = repo.func("Document.set_part")
    cfg = cfg_of(f)
    sp = calls(f, lambda c: call_name(c) == "set_part" and "container" in canon(f, c.func))
    if not sp:
        raise AnalysisError("R03d: container.set_part not found in Document.set_part")
    drops = []
    for n in walk_no_nested(f.node):
        if isinstance(n, ast.Delete) and any(_mentions_attr(t, "xmlparts") for t in n.targets):
            drops.append(n)
        if isinstance(n, ast.Call) and call_name(n) == "pop" and _mentions_attr(n.func, "xmlparts"):
            drops.append(n)
        if isinstance(n, ast.Assign) and any(isinstance(t, ast.Subscript) and _mentions_attr(t.value, "xmlparts") for t in n.targets) \
                and isinstance(n.value, ast.Constant) and n.value.value is None:
            drops.append(n)
    ok = False
    for d in drops:
        guards = structural_guards(d, stop=f.node)
        if any("_get_part_class" in canon(f, t_) for t, _ in guards for t_ in ast.walk(t) if isinstance(t_, (ast.Name, ast.Call))) or not guards:
            dn, sn = node_of(cfg, d), node_of(cfg, sp[0])
            # on the XML-part branch the drop precedes the raw write
            if cfg.path_avoiding(dn, sn, [], follow_exc=True) is not None:
                ok = True
    ctx.instance("R03d", f"{f.file}:{f.ident}", "parsed copy removed from __xmlparts before container.set_part on the XML-part branch", ok=ok, nontrivial=True)
    if not ok:
        ctx.report("R03d", f, sp[0], "container.set_part(path, data) with parsed copy kept",
                   "overwriting an XML part with raw bytes leaves the parsed part in the cache: the next save serialises the stale "
                   "parsed copy over the new bytes")
    if ok:
        # the content part's cached body must be dropped as well
        body_reset = any(isinstance(n, ast.Assign) and any(isinstance(t, ast.Attribute) and t.attr.endswith("__body") for t in n.targets)
                         for n in walk_no_nested(f.node))
        ctx.instance("R03d", f"{f.file}:{f.ident}", "cached body reset with the content part", ok=body_reset)
        if not body_reset:
            ctx.report("R03d", f, sp[0], "__body kept", "raw write of content.xml keeps the cached body element of the old tree")
    # statements without effect, package-wide
    scanned = 0
    for fn in repo.all_funcs():
        for n in walk_no_nested(fn.node):
            if isinstance(n, ast.Expr):
                v = n.value
                if isinstance(v, (ast.Call, ast.Await, ast.Yield, ast.YieldFrom, ast.NamedExpr)):
                    continue
                if isinstance(v, ast.Constant):
                    continue
                if isinstance(v, (ast.Subscript, ast.Attribute, ast.Name, ast.Compare, ast.BinOp, ast.BoolOp, ast.Tuple, ast.UnaryOp)):
                    has_call = any(isinstance(x, (ast.Call, ast.Await)) for x in ast.walk(v))
                    ctx.instance("R03d", f"{fn.file}:{fn.ident}", f"expression statement {norm(v, 50)}", ok=has_call, line=n.lineno)
                    if not has_call:
                        ctx.report("R03d", fn, n, v, f"statement `{norm(v, 60)}` has no effect (a store, del or call was probably meant)")
        scanned += 1
    ctx.extra["functions_scanned_for_no_effect_statements"] = scanned


def r03e(ctx):
    repo = ctx.repo
    ctx.rule("R03e", "zip readers normalise names alike; XmlPart serialisers declare and use UTF-8 and write the whole tree", floor=5)
    c = repo.cls("Container")
    readers = [fn for nm in ("_read_zip", "_get_zip_part", "_get_all_zip_part") for fn in c.methods.get(nm, [])]
    for fn in readers:
        stores = [n for n in walk_no_nested(fn.node) if isinstance(n, ast.Assign) and isinstance(n.targets[0], ast.Subscript)
                  and _mentions_attr(n.targets[0].value, "parts") and isinstance(n.value, ast.Call) and call_name(n.value) == "read"]
        for s in stores:
            key = s.targets[0].slice
            norm_ok = False
            if isinstance(key, ast.Name):
                for a in walk_no_nested(fn.node):
                    if isinstance(a, ast.Assign) and isinstance(a.targets[0], ast.Name) and a.targets[0].id == key.id \
                            and isinstance(a.value, ast.Call) and call_name(a.value) == "normalize_path":
                        norm_ok = True
            ctx.instance("R03e", f"{fn.file}:{fn.ident}", f"part stored under normalize_path(name): {norm(s, 60)}", ok=norm_ok, line=s.lineno)
            if not norm_ok:
                ctx.report("R03e", fn, s, s, "zip member stored under a non-normalised key: the lazy and the eager reader would disagree on names")
    # the plain serialiser writes the whole tree: comments and processing instructions beside the root element belong to the part
    f = repo.func("XmlPart.serialize")
    ts = [n for n in walk_no_nested(f.node) if isinstance(n, ast.Call) and call_name(n) == "tostring" and n.args]
    for t_ in ts:
        src = canon(f, t_.args[0])
        ok = "_get_tree()" in src and "getroot" not in src
        ctx.instance("R03e", f"{f.file}:{f.ident}", f"tostring({norm(t_.args[0], 25)}) serialises the tree object ({src})", ok=ok, nontrivial=True, line=t_.lineno)
        if not ok:
            ctx.report("R03e", f, t_, f"tostring({src})",
                       "XmlPart.serialize writes the root *element* instead of the tree: lxml then leaves out the comments, processing instructions and DOCTYPE that sit "
                       "beside the root, so a part that has them is saved without them while the document in memory still holds them")
    for qual in ("XmlPart.serialize", "XmlPart.pretty_serialize"):
        f = repo.func(qual)
        hdr = [n.value for n in walk_no_nested(f.node) if isinstance(n, ast.Constant) and isinstance(n.value, bytes) and n.value.startswith(b"<?xml")]
        enc = [n for n in walk_no_nested(f.node) if isinstance(n, ast.Call) and call_name(n) == "encode" and n.args
               and isinstance(n.args[0], ast.Constant) and str(n.args[0].value).lower().replace("-", "") == "utf8"]
        ts = [n for n in walk_no_nested(f.node) if isinstance(n, ast.Call) and call_name(n) == "tostring"]
        ok = bool(hdr) and all(b'encoding="UTF-8"' in h for h in hdr) and bool(enc) and bool(ts)
        ctx.instance("R03e", f"{f.file}:{f.ident}", "XML header declares UTF-8 and the tree text is encoded as utf8", ok=ok)
        if not ok:
            ctx.report("R03e", f, f.node, "header/encoding", f"{qual}: the declared encoding and the bytes encoding no longer agree on UTF-8")


def r03f(ctx):
    """The location that is cleaned (moved to a backup or removed) is the location that is written.

    `_save_folder` only adds files, so whatever the target folder already holds and is not
    overwritten is read back as a part on reopening: a part the document never had.  The
    wrappers `_save_as_*` clean the target first.  Obligations, per wrapper: (1) the name
    handed to the cleaner and the name handed to the writer are the same value — no
    definition of that local lies on a path from the cleaner call to the writer call
    (definitions on CFG paths between the two calls); (2) for the folder packaging the cleaner call
    dominates the writer call.
    """
    from ..paths import _own_stores
    repo = ctx.repo
    ctx.rule("R03f", "the save wrappers clean (backup/unlink) exactly the location they then write; the folder writer always starts from a cleaned location", floor=3)
    c = repo.cls("Container")
    WRITERS = {"_save_zip", "_save_folder", "_save_xml"}
    CLEANERS = {"_backup_or_unlink", "_do_backup", "_do_unlink"}
    n_inst = 0
    for name, fs in c.methods.items():
        f = fs[0]
        if name in WRITERS or name in CLEANERS:
            continue
        ws = calls(f, lambda x: call_name(x) in WRITERS)
        if not ws:
            continue
        cfg = cfg_of(f)
        cs = calls(f, lambda x: call_name(x) in CLEANERS)
        for w in ws:
            wn = node_of(cfg, w)
            wt = [a for a in w.args if isinstance(a, ast.Name)]
            if call_name(w) == "_save_folder":
                n_inst += 1
                dom = [k for k in cs if cfg.dominates(node_of(cfg, k), wn)]
                ok = bool(dom)
                ctx.instance("R03f", f"{f.file}:{f.ident}", f"{norm(w, 40)} is dominated by a cleaner call ({[norm(k, 40) for k in dom]})", ok=ok, nontrivial=True, line=w.lineno)
                if not ok:
                    ctx.report("R03f", f, w, f"{norm(w, 40)} not preceded by backup/unlink on every path",
                               "the folder writer only adds files: without cleaning the target first, files left by an earlier save are read back as parts the document never had")
            for k in cs:
                kn = node_of(cfg, k)
                kt = [a for a in k.args if isinstance(a, ast.Name) and a.id != "backup"]
                if not kt or not wt:
                    continue
                if wn.id not in cfg.reach_from(kn):
                    continue
                n_inst += 1
                var = kt[-1].id
                same_var = any(a.id == var for a in wt)
                between = []
                if same_var:
                    after = cfg.reach_from(kn)
                    between = [d for d in cfg.nodes if d.id in after and d is not wn and _own_stores(d, var) and wn.id in cfg.reach_from(d)]
                ok = same_var and not between
                ctx.instance("R03f", f"{f.file}:{f.ident}", f"{norm(k, 40)} and {norm(w, 40)} receive the same value of `{var}`", ok=ok, nontrivial=True, line=k.lineno)
                if not ok:
                    what = f"`{var}` is redefined at line {between[0].stmt.lineno} ({norm(between[0].stmt, 40)}) between them" if between else f"the writer does not receive `{var}`"
                    ctx.report("R03f", f, k, f"{norm(k, 40)} cleans another location than {norm(w, 40)} writes: {what}",
                               f"{f.ident} cleans one location and writes another: the existing output is not cleared (stale files become parts on reopening) "
                               f"and an unrelated path is moved or removed")
    if n_inst == 0:
        raise AnalysisError("R03f: no save wrapper with a cleaner and a writer found in Container")


_FIXTURE_G = '''
def bad(self, target, backup):
    if hasattr(target, "seek"):
        target.seek(0)
    self._save_zip(target)
def ok(self, target, backup):
    if hasattr(target, "seek"):
        target.seek(0)
        target.truncate()
    self._save_zip(target)
'''


def _rewinds(fn: ast.AST) -> list[ast.Call]:
    """`.seek(…)` calls on a parameter of the function that no `.truncate()` on the same parameter accompanies."""
    params = {a.arg for a in fn.args.posonlyargs + fn.args.args + fn.args.kwonlyargs}
    seeks = [c for c in ast.walk(fn) if isinstance(c, ast.Call) and call_name(c) == "seek" and isinstance(c.func, ast.Attribute) and isinstance(c.func.value, ast.Name)
             and c.func.value.id in params]
    trunc = {c.func.value.id for c in ast.walk(fn) if isinstance(c, ast.Call) and call_name(c) == "truncate" and isinstance(c.func, ast.Attribute) and isinstance(c.func.value, ast.Name)}
    return [c for c in seeks if c.func.value.id not in trunc]


def r03g(ctx):
    """A file-like save target is written where it stands, or emptied first.

    zipfile locates an archive from the end of the file.  Appending a new archive after whatever the target already holds is harmless;
    rewinding the target and writing a shorter archive over a longer one leaves the old tail (with its central directory) in place, and
    that stale directory is what a reader finds.  Rule over the save path of Container (expected count 0, fixture on every run): no
    `.seek()` on a target parameter without a `.truncate()` on it in the same function.
    """
    repo = ctx.repo
    ctx.rule("R03g", "a file-like save target is never repositioned without being truncated", floor=5)
    c = repo.cls("Container")
    for name, fs in c.methods.items():
        if not (name == "save" or name.startswith("_save")):
            continue
        f = fs[0]
        bad = _rewinds(f.node)
        ctx.instance("R03g", f"{f.file}:{f.ident}", "target written where it stands" if not bad else f"{norm(bad[0], 40)} without truncate()", ok=not bad, nontrivial=bool(bad), line=f.node.lineno)
        for b in bad:
            ctx.report("R03g", f, b, f"{norm(b, 40)} without truncate()",
                       f"{f.ident} repositions the file-like target and writes over its content without truncating it: when the new archive is shorter than what the "
                       f"buffer held, the old tail with its central directory survives and the saved package reads back as the old (or a corrupt) document")
    got = {fn.name: len(_rewinds(fn)) for fn in ast.parse(_FIXTURE_G).body}
    if got != {"bad": 1, "ok": 0}:
        raise AnalysisError(f"R03g fixture: rewind detector broken: {got}")


def r03h(ctx):
    """One part, one path: what is looked up, what is dropped from the cache and what is written are addressed by the same value.

    Document.get_part / set_part / del_part normalise the path (strip "./", translate the shortcuts "content", "styles" … to the real part
    names) and then use it three ways: to find the part class, to address the cache of parsed parts, to address the container.  If one of
    those uses sees the path *before* a normalisation step that the others see after it, a shortcut name is classified as "not an XML
    part": the parsed copy survives a raw set_part, and the next save writes the stale tree over the new bytes.  Rule (reaching
    definitions): every such use of the path has the same set of reaching definitions as the container call.
    """
    from ..paths import reaching_defs
    repo = ctx.repo
    ctx.rule("R03h", "class lookup, parsed-part cache and container are addressed with the same definition of the path", floor=4)
    n = 0
    for q in ("Document.get_part", "Document.set_part", "Document.del_part"):
        f = repo.func(q)
        cfg = cfg_of(f)
        cont = [c for c in walk_no_nested(f.node) if isinstance(c, ast.Call) and call_name(c) in ("get_part", "set_part", "del_part") and "container" in canon(f, c.func)
                and c.args and isinstance(c.args[0], ast.Name)]
        if not cont:
            continue
        pv = cont[0].args[0].id
        rd = reaching_defs(cfg, pv)
        ref = rd.get(node_of(cfg, cont[0]).id, frozenset())
        uses = []
        for x in walk_no_nested(f.node):
            if isinstance(x, ast.Call) and call_name(x) == "_get_part_class" and x.args and isinstance(x.args[0], ast.Name) and x.args[0].id == pv:
                uses.append((x, "class lookup"))
            elif isinstance(x, ast.Subscript) and _mentions_attr(x.value, "xmlparts") and isinstance(x.slice, ast.Name) and x.slice.id == pv:
                uses.append((x, "parsed-part cache"))
            elif isinstance(x, ast.Call) and x is not cont[0] and call_name(x) in ("get_part", "set_part", "del_part") and "container" in canon(f, x.func) \
                    and x.args and isinstance(x.args[0], ast.Name) and x.args[0].id == pv:
                uses.append((x, "container"))
        for x, what in uses:
            n += 1
            got = rd.get(node_of(cfg, x).id, frozenset())
            ok = got == ref
            ctx.instance("R03h", f"{f.file}:{f.ident}", f"{what} `{norm(x, 40)}` sees the path the container call sees", ok=ok, nontrivial=True, line=x.lineno)
            if not ok:
                ctx.report("R03h", f, x, f"{what} `{norm(x, 40)}` uses `{pv}` before/after a normalisation step that {norm(cont[0], 40)} does not share",
                           f"{q} addresses the {what} with another version of `{pv}` than the container: for a shortcut name (\"content\", \"styles\" …) or a \"./\" path the "
                           f"part is classified differently from where it is written, e.g. the parsed copy survives a raw set_part and the next save writes the stale tree "
                           f"over the new bytes")
    if n == 0:
        raise AnalysisError("R03h: no path uses found in Document.get_part/set_part/del_part")


def r03i(ctx):
    """Reading a part never replaces what was put in memory.

    The part table holds what will be saved.  `get_part` may fill a missing entry from the package, and for a folder it may refresh an entry
    that it loaded itself when the file changed on disk (it records the file's timestamp when it loads).  An entry written by `set_part`
    has no such record: overwriting it from disk silently discards the edit, and save() — which goes through get_part — writes the old
    bytes.  Rule: in Container.get_part every store into the part table on a path where the entry already exists is guarded by the
    membership of the path in the timestamp table (i.e. by evidence that the entry came from disk).
    """
    repo = ctx.repo
    ctx.rule("R03i", "Container.get_part overwrites an existing entry of the part table only if it loaded that entry from disk itself", floor=2)
    f = repo.func("Container.get_part")
    sp = repo.func("Container.set_part")
    table = {t.value.attr for a in walk_no_nested(sp.node) if isinstance(a, ast.Assign) for t in a.targets if isinstance(t, ast.Subscript) and isinstance(t.value, ast.Attribute)}
    if len(table) != 1:
        raise AnalysisError("R03i: part table attribute not identified from Container.set_part")
    tbl = next(iter(table))
    stores = [a for a in walk_no_nested(f.node) if isinstance(a, ast.Assign) and any(isinstance(t, ast.Subscript) and isinstance(t.value, ast.Attribute) and t.value.attr == tbl for t in a.targets)]
    if not stores:
        raise AnalysisError("R03i: no store into the part table in Container.get_part")
    # the timestamp table: the other self.<attr>[path] stored next to the part table in this function
    ts = {t.value.attr for a in walk_no_nested(f.node) if isinstance(a, ast.Assign) for t in a.targets
          if isinstance(t, ast.Subscript) and isinstance(t.value, ast.Attribute) and t.value.attr != tbl and isinstance(t.value.value, ast.Name) and t.value.value.id == "self"}

    def member(t, attr):
        return isinstance(t, ast.Compare) and len(t.ops) == 1 and isinstance(t.ops[0], (ast.In, ast.NotIn)) and isinstance(t.comparators[0], ast.Attribute) and t.comparators[0].attr == attr

    def holds(t, pol, attr):
        """does guard (t, pol) establish `path in self.<attr>`"""
        if isinstance(t, ast.BoolOp) and isinstance(t.op, ast.And) and pol:
            return any(holds(v, True, attr) for v in t.values)
        if isinstance(t, ast.BoolOp) and isinstance(t.op, ast.Or) and not pol:
            return any(holds(v, False, attr) for v in t.values)
        if member(t, attr):
            return pol == isinstance(t.ops[0], ast.In)
        return False

    for a in stores:
        gs = structural_guards(a, stop=f.node)
        existing = any(holds(t, pol, tbl) for t, pol in gs)
        from_disk = any(holds(t, pol, x) for t, pol in gs for x in ts)
        ok = (not existing) or from_disk
        ctx.instance("R03i", f"{f.file}:{f.ident}", f"{norm(a, 40)}: " + ("fills a missing entry" if not existing else "refreshes an entry it loaded itself" if from_disk else "overwrites an entry of unknown origin"),
                     ok=ok, nontrivial=True, line=a.lineno)
        if not ok:
            ctx.report("R03i", f, a, norm(a, 60),
                       "Container.get_part replaces an entry that is already in the part table without evidence that it was loaded from disk (no `path in <timestamps>` in force): "
                       "a part written with set_part() before it was ever read is overwritten by the old bytes of the folder, and the following save() writes those")


def r03j(ctx):
    """A bulk loader takes every member.

    Opening from a buffer reads the whole archive at once; cloning and saving a path-opened container pre-load what has not been read.
    What these loops skip is silently absent from the next save: empty files (a zero-length `Configurations2/accelerator/current.xml` is
    declared in the manifest of the templates), directory entries, members filtered by name.  The only legitimate reason not to store a
    member is that the part table already has it.  Rule: in every loop of Container over the member list (namelist / infolist / the folder
    listing) that stores into the part table, the store is guarded by nothing but the absence of the key from the table, and no
    `continue`/`break` in the loop is taken on another condition.
    """
    repo = ctx.repo
    ctx.rule("R03j", "bulk loaders of the part table store every member of the source (the only filter: the key is already in the table)", floor=2)
    c = repo.cls("Container")
    n = 0

    def is_table(e, aliases):
        if isinstance(e, ast.Attribute) and e.attr.endswith("__parts") and isinstance(e.value, ast.Name) and e.value.id == "self":
            return True
        return isinstance(e, ast.Name) and e.id in aliases

    for name, fs in sorted(c.methods.items()):
        f = fs[0]
        aliases = {a.targets[0].id for a in walk_no_nested(f.node) if isinstance(a, ast.Assign) and len(a.targets) == 1 and isinstance(a.targets[0], ast.Name) and is_table(a.value, set())}
        for loop in [x for x in walk_no_nested(f.node) if isinstance(x, ast.For) and any(k in ast.unparse(x.iter) for k in ("namelist", "infolist", "_get_folder_parts"))]:
            stores = [a for a in ast.walk(loop) if isinstance(a, ast.Assign) and isinstance(a.targets[0], ast.Subscript) and is_table(a.targets[0].value, aliases)]
            if not stores:
                continue

            def about_table(t):
                return any(isinstance(x, ast.Compare) and len(x.ops) == 1 and isinstance(x.ops[0], (ast.In, ast.NotIn)) and is_table(x.comparators[0], aliases) for x in ast.walk(t)) \
                    and not any(isinstance(x, ast.BoolOp) for x in ast.walk(t))

            bad = []
            for st in stores:
                for t, _pol in structural_guards(st, stop=loop):
                    if not about_table(t):
                        bad.append((st, t))
            for j in ast.walk(loop):
                if isinstance(j, (ast.Continue, ast.Break)):
                    for t, _pol in structural_guards(j, stop=loop):
                        if not about_table(t):
                            bad.append((j, t))
            n += 1
            ctx.instance("R03j", f"{f.file}:{f.ident}", f"loop over `{norm(loop.iter, 30)}` stores every member", ok=not bad, nontrivial=True, line=loop.lineno)
            for st, t in bad[:1]:
                ctx.report("R03j", f, st, f"{norm(st, 40)} under `{norm(t, 40)}`",
                           f"{c.name}.{name} leaves members of the source out of the part table on the condition `{norm(t, 50)}`: what is not loaded is missing from the next save "
                           f"(empty files and directory entries are members too, and the manifest may declare them)")
    if n == 0:
        raise AnalysisError("R03j: no bulk loader of the part table found")


def r03l(ctx):
    """The two tables of document types are one table read both ways.

    A package is recognised by its mimetype: the readers accept a document whose mimetype is a key of ODF_MIMETYPES (the folder reader
    silently turns an unknown type into ODF Text, the zip reader refuses it), the template and extension logic goes through ODF_EXTENSIONS.
    "Reopening reports the same mimetype" needs every type the library can write to be known when it reads it back.  Rule: neither dict
    display has a duplicate key (the later entry silently replaces the earlier one), and the two tables are inverse of each other.
    """
    repo = ctx.repo
    ctx.rule("R03l", "ODF_EXTENSIONS and ODF_MIMETYPES have no duplicate keys and are inverse of each other", floor=2)
    m = repo.module("const")
    tabs = {}
    for nm in ("ODF_EXTENSIONS", "ODF_MIMETYPES"):
        node = m.assigns.get(nm)
        if not isinstance(node, ast.Dict):
            raise AnalysisError(f"R03l: {nm} is not a dict display")
        keys = [repo.fold(k, m) for k in node.keys]
        dups = sorted({str(k) for k in keys if keys.count(k) > 1})
        tabs[nm] = (node, dict(zip(keys, [repo.fold(v, m) for v in node.values])))
        ctx.instance("R03l", f"{m.relpath}:{nm}", f"{len(keys)} keys, no duplicate", ok=not dups, nontrivial=True, line=node.lineno)
        if dups:
            ctx.report("R03l", m, node, f"{nm}: duplicate key {dups}",
                       f"{nm} names the key {dups} twice: the later entry replaces the earlier one and another entry has vanished from the table — a document of that type is no longer "
                       f"recognised when it is read back (the folder reader turns it into ODF Text)")
    ext, mim = tabs["ODF_EXTENSIONS"][1], tabs["ODF_MIMETYPES"][1]
    inv = {v: k for k, v in ext.items()}
    ok = inv == mim
    ctx.instance("R03l", f"{m.relpath}:ODF_MIMETYPES", "mimetype → extension is the inverse of extension → mimetype", ok=ok, nontrivial=True, line=tabs["ODF_MIMETYPES"][0].lineno)
    if not ok:
        diff = sorted(str(k) for k in set(inv) ^ set(mim)) or sorted(str(k) for k in inv if inv[k] != mim.get(k))
        ctx.report("R03l", m, tabs["ODF_MIMETYPES"][0], f"tables disagree on {diff[:3]}",
                   f"ODF_EXTENSIONS and ODF_MIMETYPES disagree on {diff[:3]}: a type the library writes (or derives from a template) is unknown to the readers, or maps to another extension")


def r03m(ctx):
    """What is read from the file on demand stays in the part table.

    A container opened by path reads its members lazily; `Container.save` pre-loads what was never read by calling `get_part()` on every
    member *and throwing the result away* — it relies on get_part leaving the bytes in the part table, because the writers write the
    table and nothing else.  A loader that hands the bytes back without filing them (large members "not worth caching", a filter on the
    content) makes exactly those members vanish from the next save, while every read in memory still answers.  Rule: in get_part and the
    single-member loaders it calls, every value that is returned was read from the table, or comes from a disk read after which a store of
    that value into the table lies on every path to the return.
    """
    from ..paths import reaching_defs
    repo = ctx.repo
    ctx.rule("R03m", "a member read from disk on demand is filed in the part table on every path that returns it", floor=3)
    c = repo.cls("Container")

    def is_table(e):
        return isinstance(e, ast.Attribute) and e.attr.endswith("__parts") and isinstance(e.value, ast.Name) and e.value.id == "self"

    def from_table(e):
        return isinstance(e, ast.Subscript) and is_table(e.value)

    n = 0
    loaders = ["get_part", "_get_zip_part"]
    for name in loaders:
        f = c.lookup(name)
        if f is None:
            raise AnalysisError(f"anchor function vanished: Container.{name}")
        cfg = cfg_of(f)
        byid = {nd.id: nd for nd in cfg.nodes}
        stores = [a for a in walk_no_nested(f.node) if isinstance(a, ast.Assign) and len(a.targets) == 1 and isinstance(a.targets[0], ast.Subscript) and is_table(a.targets[0].value)]
        for r in [x for x in walk_no_nested(f.node) if isinstance(x, ast.Return) and x.value is not None]:
            v = r.value
            if isinstance(v, ast.Constant) and v.value is None:
                continue
            n += 1
            bad = None
            if from_table(v):
                pass
            elif isinstance(v, ast.Call) and is_self_attr(v.func) and call_name(v) in loaders:
                pass  # the callee is held to the same rule
            elif isinstance(v, ast.Name):
                rn = node_of(cfg, r)
                for d in reaching_defs(cfg, v.id).get(rn.id, frozenset()):
                    dn = byid[d]
                    st = dn.stmt
                    if dn is cfg.entry:
                        bad = (v.id, None, "it is the argument")
                        continue
                    val = getattr(st, "value", None)
                    if isinstance(st, ast.Assign) and from_table(val):
                        continue
                    if isinstance(st, ast.Assign) and isinstance(val, ast.Constant) and val.value is None:
                        continue
                    filing = [node_of(cfg, a) for a in stores if isinstance(a.value, ast.Name) and a.value.id == v.id]
                    filing = [x for x in filing if x is not None]
                    if not filing or cfg.path_avoiding(dn, rn, filing, follow_exc=False) is not None:
                        bad = (v.id, st, "a path from there to the return files nothing")
            else:
                bad = (norm(v, 30), None, "its origin cannot be read from the source")
            ctx.instance("R03m", f"{f.file}:{f.ident}", f"{norm(r, 40)}: returned value is in the table", ok=bad is None, nontrivial=True, line=r.lineno)
            if bad:
                ctx.report("R03m", f, bad[1] or r, f"{norm(r, 30)} unfiled `{bad[0]}`",
                           f"{f.ident} returns `{bad[0]}`" + (f", read by `{norm(bad[1], 50)}`" if bad[1] is not None else "") + f": {bad[2]} — Container.save pre-loads unread "
                           f"members by calling get_part and discarding the result, so a member that is returned without being filed in the part table is missing from the saved file")
    if n < 3:
        raise AnalysisError(f"R03m: only {n} return(s) of part data found")


def run(ctx):
    r03a(ctx)
    r03b(ctx)
    r03c(ctx)
    r03d(ctx)
    r03e(ctx)
    r03f(ctx)
    r03g(ctx)
    r03h(ctx)
    r03i(ctx)
    r03j(ctx)
    r03l(ctx)
    r03m(ctx)
    # "reopen" is half of the property: a parser that drops blank text, comments or PIs loses content on the way back (rule shared with C11)
    from .c11 import r11de, r11h
    r11h(ctx)
    # an indented save writes what the indenter leaves: every mixed-content element must be in its table, or text next to inline children is overwritten (shared with C11)
    r11de(ctx)
    from .round12 import r03n
    r03n(ctx)
    from .round12 import r03o
    r03o(ctx)


from ..selftest import Seed, unparse_seed  # noqa: E402

_CT = "src/odfdo/container.py"
_DOC = "src/odfdo/document.py"
SEEDS = [
    Seed("normalize_path lower-cases member names", "fault", "src/odfdo/container.py",
         "    return PurePath(path).as_posix()", "    return PurePath(path.lower()).as_posix()", "R03o"),
    Seed("normalize_path tests for a folder with a slice", "neutral", "src/odfdo/container.py",
         "    if path.endswith(\"/\"):  # folder", "    if path[-1:] == \"/\":  # folder"),
    Seed("get_part constructs the part from another name than its cache key", "fault", "src/odfdo/document.py",
         "            self.__xmlparts[path] = part = cls(path, self.container)", "            self.__xmlparts[path] = part = cls(path.strip(), self.container)", "R03n"),
    Seed("get_part files the part in two statements", "neutral", "src/odfdo/document.py",
         "            self.__xmlparts[path] = part = cls(path, self.container)", "            part = cls(path, self.container)\n            self.__xmlparts[path] = part"),
    Seed("the zip loader does not keep large members", "fault", _CT,
         "                self.__parts[upath] = zf.read(name)\n                return self.__parts[upath]",
         "                data = zf.read(name)\n                if len(data) <= 1 << 24:\n                    self.__parts[upath] = data\n                return data", "R03m"),
    Seed("the zip loader names the bytes before filing them", "neutral", _CT,
         "                self.__parts[upath] = zf.read(name)\n                return self.__parts[upath]",
         "                data = zf.read(name)\n                self.__parts[upath] = data\n                return data"),
    Seed("get_part reloads every folder part whose timestamp is not the recorded one, recorded or not", "fault", _CT,
         "            if self.__packaging == FOLDER and path in self.__parts_ts:\n                # only a part that was loaded from the folder can be stale\n                cache_ts = self.__parts_ts[path]",
         "            if self.__packaging == FOLDER:\n                cache_ts = self.__parts_ts.get(path, -1)", "R03i"),
    Seed("get_part tests the record first", "neutral", _CT,
         "            if self.__packaging == FOLDER and path in self.__parts_ts:", "            if path in self.__parts_ts and self.__packaging == FOLDER:"),
    Seed("_read_zip skips empty members", "fault", _CT,
         "                for name in zf.namelist():\n                    upath = normalize_path(name)\n                    self.__parts[upath] = zf.read(name)\n",
         "                for info in zf.infolist():\n                    if not info.file_size:\n                        continue\n                    upath = normalize_path(info.filename)\n                    self.__parts[upath] = zf.read(info)\n", "R03j"),
    Seed("_read_zip iterates the info list", "neutral", _CT,
         "                for name in zf.namelist():\n                    upath = normalize_path(name)\n                    self.__parts[upath] = zf.read(name)\n",
         "                for info in zf.infolist():\n                    upath = normalize_path(info.filename)\n                    self.__parts[upath] = zf.read(info)\n"),
    Seed("folder writer refuses names containing two dots", "fault", _CT,
         "        def dump(part_path: str, content: bytes) -> None:\n            if part_path.endswith(\"/\"):  # folder",
         "        def dump(part_path: str, content: bytes) -> None:\n            if part_path.startswith(\"/\") or \"..\" in part_path:\n                return\n            if part_path.endswith(\"/\"):  # folder", "R03c"),
    Seed("zip writer skips backup-looking names", "fault", _CT,
         "                data = parts[path]\n                if data is None:\n                    # Deleted\n                    continue\n                filezip.writestr(path, data)",
         "                data = parts[path]\n                if data is None or path.endswith(\"~\"):\n                    continue\n                filezip.writestr(path, data)", "R03c"),
    Seed("ODF_MIMETYPES names one key twice and loses text-master", "fault", "src/odfdo/const.py", '    ODF_MASTER: "odm",\n', '    ODF_WEB: "odm",\n', "R03l"),
    Seed("Container.save pre-loads only when the table looks short", "fault", _CT,
         "        for path in self.parts:\n            if path not in parts:\n                self.get_part(path)\n",
         "        names = self.parts\n        if len(parts) < len(names):\n            for path in names:\n                if path not in parts:\n                    self.get_part(path)\n", "R03a"),
    Seed("Container.save names the member list first", "neutral", _CT,
         "        for path in self.parts:\n            if path not in parts:\n                self.get_part(path)\n",
         "        names = self.parts\n        for path in names:\n            if path not in parts:\n                self.get_part(path)\n"),
    Seed("XmlPart.serialize writes the root element only", "fault", "src/odfdo/xmlpart.py",
         '        tree = self._get_tree()\n        bytes_tree = tostring(tree, encoding="unicode").encode("utf8")', '        root = self._get_tree().getroot()\n        bytes_tree = tostring(root, encoding="unicode").encode("utf8")', "R03e"),
    Seed("Document.set_part looks the class up before translating the shortcut", "fault", _DOC,
         "        path = path.lstrip(\"./\")\n        path = _get_part_path(path)\n        cls = _get_part_class(path)\n        # XML part overwritten\n",
         "        path = path.lstrip(\"./\")\n        cls = _get_part_class(path)\n        path = _get_part_path(path)\n        # XML part overwritten\n", "R03h"),
    Seed("zip save rewinds a reused buffer", "fault", _CT,
         "        if isinstance(target, (str, Path)) and backup:\n            self._do_backup(target)\n        self._save_zip(target)",
         "        if isinstance(target, (str, Path)):\n            if backup:\n                self._do_backup(target)\n        elif target.seekable():\n            target.seek(0)\n        self._save_zip(target)", "R03g"),
    Seed("zip save empties a reused buffer first", "neutral", _CT,
         "        if isinstance(target, (str, Path)) and backup:\n            self._do_backup(target)\n        self._save_zip(target)",
         "        if isinstance(target, (str, Path)):\n            if backup:\n                self._do_backup(target)\n        elif target.seekable():\n            target.seek(0)\n            target.truncate()\n        self._save_zip(target)"),
    Seed("folder save cleans the name without the .folder suffix", "fault", _CT,
         '        if not str(target).endswith(".folder"):\n            target = str(target) + ".folder"\n        self._backup_or_unlink(backup, target)\n',
         '        self._backup_or_unlink(backup, target)\n        if not str(target).endswith(".folder"):\n            target = str(target) + ".folder"\n', "R03f"),
    Seed("folder save cleans only when a backup is asked for", "fault", _CT,
         '        self._backup_or_unlink(backup, target)\n        self._save_folder(target)', '        if backup:\n            self._do_backup(target)\n        self._save_folder(target)', "R03f"),
    Seed("xml save backs up the name without the .xml suffix", "fault", _CT,
         '            if not str(target).endswith(".xml"):\n                target = str(target) + ".xml"\n            if backup:\n                self._do_backup(target)\n',
         '            if backup:\n                self._do_backup(target)\n            if not str(target).endswith(".xml"):\n                target = str(target) + ".xml"\n', "R03f"),
    Seed("folder save names the suffixed target separately", "neutral", _CT,
         '        if not str(target).endswith(".folder"):\n            target = str(target) + ".folder"\n        self._backup_or_unlink(backup, target)\n        self._save_folder(target)',
         '        folder = str(target)\n        if not folder.endswith(".folder"):\n            folder = folder + ".folder"\n        self._backup_or_unlink(backup, folder)\n        self._save_folder(folder)'),
    Seed("Container.save loses the pre-load loop", "fault", _CT,
         "        for path in self.parts:\n            if path not in parts:\n                self.get_part(path)\n", "", "R03a"),
    Seed("pre-load only XML parts", "fault", _CT,
         "            if path not in parts:\n                self.get_part(path)\n",
         "            if path not in parts and path.endswith('.xml'):\n                self.get_part(path)\n", "R03a"),
    Seed("pre-load after the zip writer", "fault", _CT,
         "        for path in self.parts:\n            if path not in parts:\n                self.get_part(path)\n        target = self._clean_save_target(target)\n",
         "        target = self._clean_save_target(target)\n        if packaging == ZIP:\n            self._save_as_zip(target, backup)\n            return\n        for path in self.parts:\n            if path not in parts:\n                self.get_part(path)\n", "R03a"),
    Seed("Document.save flushes only content.xml", "fault", _DOC,
         "            for path, part in self.__xmlparts.items():\n                if part is not None:\n                    container.set_part(path, part.serialize())",
         "            for path, part in self.__xmlparts.items():\n                if part is not None and path == ODF_CONTENT:\n                    container.set_part(path, part.serialize())", "R03b"),
    Seed("Document.save early save for BytesIO target", "fault", _DOC,
         "        self._check_manifest_rdf()\n        if pretty and packaging != XML:",
         "        self._check_manifest_rdf()\n        if isinstance(target, io.BytesIO) and not pretty:\n            container.save(target, packaging=packaging, backup=backup, pretty=pretty)\n            return\n        if pretty and packaging != XML:", "R03b"),
    Seed("_save_zip forgets part_names.remove(path)", "fault", _CT,
         "                filezip.writestr(path, part)\n                part_names.remove(path)\n", "                filezip.writestr(path, part)\n", "R03c"),
    Seed("_save_zip writes deleted parts", "fault", _CT,
         "                data = parts[path]\n                if data is None:\n                    # Deleted\n                    continue\n                filezip.writestr(path, data)",
         "                data = parts[path]\n                filezip.writestr(path, data or b'')", "R03c"),
    Seed("_save_folder writes deleted parts", "fault", _CT,
         "            if data is None:\n                # Deleted\n                continue\n            dump(part_path, data)", "            dump(part_path, data or b'')", "R03c"),
    Seed("set_part keeps the parsed copy", "fault", _DOC,
         "                del self.__xmlparts[path]\n", "                self.__xmlparts[path]\n", "R03d"),
    Seed("set_part keeps the parsed copy (get)", "fault", _DOC,
         "            with suppress(KeyError):\n                del self.__xmlparts[path]\n", "            self.__xmlparts.get(path)\n", "R03d"),
    Seed("lazy zip reader stores raw member name", "fault", _CT,
         "                upath = normalize_path(name)\n                self.__parts[upath] = zf.read(name)\n                return self.__parts[upath]",
         "                self.__parts[name] = zf.read(name)\n                return self.__parts[name]", "R03e"),
    Seed("serialize encodes latin-1", "fault", "src/odfdo/xmlpart.py",
         'bytes_tree = tostring(tree, encoding="unicode").encode("utf8")', 'bytes_tree = tostring(tree, encoding="unicode").encode("latin-1", "replace")', "R03e"),
    unparse_seed(_CT), unparse_seed(_DOC), unparse_seed("src/odfdo/xmlpart.py"),
    Seed("flush loop with inverted None test", "neutral", _DOC,
         "            for path, part in self.__xmlparts.items():\n                if part is not None:\n                    container.set_part(path, part.serialize())",
         "            for path, part in self.__xmlparts.items():\n                if part is None:\n                    continue\n                container.set_part(path, part.serialize())"),
    Seed("set_part uses pop", "neutral", _DOC,
         "            with suppress(KeyError):\n                del self.__xmlparts[path]\n", "            self.__xmlparts.pop(path, None)\n"),
]
