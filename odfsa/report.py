"""Findings, known findings, evidence, exit codes."""

from __future__ import annotations

import ast
import json
import os
import time
from pathlib import Path
from typing import Any

from .core import AnalysisError, FuncInfo, ModuleInfo, Repo, norm

VERIF = Path(__file__).resolve().parent.parent
KNOWN_FILE = VERIF / "known_findings.json"


class Finding:
    def __init__(self, rule: str, file: str, func: str, construct: str, message: str,
                 line: int | None = None, path: list[str] | None = None, info: bool = False):
        self.rule = rule
        self.file = file
        self.func = func
        self.construct = construct
        self.message = message
        self.line = line
        self.path = path or []
        self.info = info

    @property
    def identity(self) -> str:
        return f"{self.rule} {self.file} {self.func} [{self.construct}]"

    def as_dict(self) -> dict:
        return {
            "rule": self.rule, "file": self.file, "function": self.func,
            "construct": self.construct, "identity": self.identity,
            "line": self.line, "message": self.message, "path": self.path,
        }

    def __repr__(self) -> str:
        return f"{self.file}:{self.line}: {self.rule}: {self.func}: {self.message} [{self.construct}]"


class RuleStats:
    def __init__(self, rule: str, text: str, floor: int):
        self.rule = rule
        self.text = text
        self.floor = floor
        self.instances = 0
        self.nontrivial: set[str] = set()
        self.samples: list[dict] = []
        self.discharged = 0


class Ctx:
    """One run of one property's rules over one Repo."""

    def __init__(self, prop: str, repo: Repo, tier: str = "quick"):
        self.prop = prop
        self.repo = repo
        self.tier = tier
        self.findings: list[Finding] = []
        self.infos: list[Finding] = []
        self.rules: dict[str, RuleStats] = {}
        self.notes: list[str] = []
        self.unresolved: list[str] = []
        self.extra: dict[str, Any] = {}
        self._seen: set[str] = set()

    # ------------------------------------------------------------------ rules
    def rule(self, rule: str, text: str, floor: int = 1) -> RuleStats:
        rs = self.rules.get(rule)
        if rs is None:
            rs = self.rules[rule] = RuleStats(rule, text, floor)
        return rs

    def instance(self, rule: str, where: str, what: str, ok: bool = True, nontrivial: bool = False,
                 line: int | None = None) -> None:
        """Record one evaluated rule instance (an obligation)."""
        rs = self.rules[rule]
        rs.instances += 1
        if ok:
            rs.discharged += 1
        key = f"{where} :: {what}"
        if nontrivial:
            rs.nontrivial.add(key)
        if len(rs.samples) < 6 or (not ok and len(rs.samples) < 12):
            rs.samples.append({"where": where, "what": what, "line": line,
                               "verdict": "discharged" if ok else "VIOLATED"})

    def loc(self, f: FuncInfo | ModuleInfo | None, node: ast.AST | None = None) -> tuple[str, str, int | None]:
        if isinstance(f, FuncInfo):
            return f.file, f.ident, getattr(node, "lineno", f.node.lineno)
        if isinstance(f, ModuleInfo):
            return f.relpath, "<module>", getattr(node, "lineno", None)
        return "", "", getattr(node, "lineno", None)

    def report(self, rule: str, f: FuncInfo | ModuleInfo | None, node: ast.AST | None, construct: str | ast.AST,
               message: str, path: list[str] | None = None, info: bool = False) -> Finding:
        file, func, line = self.loc(f, node)
        cons = norm(construct)
        fd = Finding(rule, file, func, cons, message, line, path, info)
        if fd.identity in self._seen:
            return fd
        self._seen.add(fd.identity)
        (self.infos if info else self.findings).append(fd)
        return fd

    def note(self, s: str) -> None:
        self.notes.append(s)

    # -------------------------------------------------------------- finishing
    def check_floors(self) -> None:
        reported = {fd.rule for fd in self.findings}
        for rs in self.rules.values():
            # a rule that reports a construct has seen its code; its later obligations may not have been evaluated
            if rs.instances < rs.floor and rs.rule not in reported:
                raise AnalysisError(
                    f"rule {rs.rule} matched {rs.instances} instance(s), below its floor {rs.floor}: "
                    f"the rule no longer sees the code it was written for")


def load_known() -> list[dict]:
    if not KNOWN_FILE.exists():
        return []
    data = json.loads(KNOWN_FILE.read_text())
    return data.get("findings", [])


def finish(ctx: Ctx, t0: float, level_explanation: str, assumptions: list[str],
           write: bool = True, selftest: dict | None = None) -> int:
    """Apply known findings, print report, write evidence; return exit code."""
    if not getattr(ctx, "incomplete", False):
        ctx.check_floors()
    known = [k for k in load_known() if k.get("property") == ctx.prop]
    open_ids = {}
    for k in known:
        if k.get("status") == "open":
            for i in k.get("identities", []):
                open_ids[i] = k
    violations: list[Finding] = []
    matched_known: list[Finding] = []
    for fd in ctx.findings:
        if fd.identity in open_ids:
            matched_known.append(fd)
        else:
            violations.append(fd)
    for fd in matched_known:
        print(f"KNOWN-FINDING: property={ctx.prop} {fd.identity} -- {open_ids[fd.identity].get('what', fd.message)}")
    stale = [i for i in open_ids if i not in {f.identity for f in matched_known}]
    for i in stale:
        print(f"note: known finding no longer reported (repaired or moved): {i}")
    for fd in ctx.infos:
        print(f"info: {fd!r}")
    evdir = VERIF / "evidence"
    replay_dir = evdir / "replay"
    code = 0
    if violations:
        code = 1
        if write:
            replay_dir.mkdir(parents=True, exist_ok=True)
        for i, fd in enumerate(violations):
            rp = replay_dir / f"{ctx.prop}-{i}.json"
            if write:
                rp.write_text(json.dumps({"property": ctx.prop, **fd.as_dict()}, indent=1))
            print(f"{fd.file}:{fd.line}: {fd.rule}: in {fd.func}: {fd.message}")
            print(f"    construct: {fd.construct}")
            for p in fd.path:
                print(f"    path: {p}")
            print(f"VIOLATION property={ctx.prop} replay={rp}")
    total = sum(r.instances for r in ctx.rules.values())
    disc = sum(r.discharged for r in ctx.rules.values())
    nontriv = sum(len(r.nontrivial) for r in ctx.rules.values())
    print(f"[{ctx.prop}] tier={ctx.tier} rules={len(ctx.rules)} obligations={total} discharged={disc} "
          f"nontrivial={nontriv} violations={len(violations)} known={len(matched_known)} "
          f"wall={time.time() - t0:.2f}s")
    for rs in ctx.rules.values():
        print(f"  {rs.rule}: {rs.instances} instance(s) (floor {rs.floor}), {rs.discharged} discharged — {rs.text}")
    if write:
        evdir.mkdir(parents=True, exist_ok=True)
        samples = []
        for rs in ctx.rules.values():
            for s in rs.samples[:4]:
                samples.append({"rule": rs.rule, **s})
        ev = {
            "property_id": ctx.prop,
            "tier": ctx.tier,
            "seed": int(os.environ.get("VERIF_SEED", "0") or 0),
            "level": "other",
            "coverage": {
                "explanation": level_explanation,
                "obligations": total,
                "discharged": disc,
                "evaluations": total,
                "distinct_nontrivial": nontriv,
                "rule": "one evaluation = one rule instance (site/path/table row) found in the current source; "
                        "non-trivial = its verdict needed a path query over the CFG, an interprocedural summary, "
                        "an abstract-interpretation fixpoint or a comparison of two extracted tables "
                        "(counted distinct by site identity)",
                "samples": samples[:40],
                "rules": [{"rule": r.rule, "text": r.text, "instances": r.instances,
                           "floor": r.floor, "discharged": r.discharged,
                           "nontrivial": len(r.nontrivial)} for r in ctx.rules.values()],
                "modules_parsed": len(ctx.repo.modules),
                "functions_parsed": sum(len(m.all_funcs) for m in ctx.repo.modules.values()),
                "classes_parsed": sum(len(m.classes) for m in ctx.repo.modules.values()),
                "known_findings_matched": [f.identity for f in matched_known],
                "violations": [f.as_dict() for f in violations],
                "information": [f.as_dict() for f in ctx.infos][:30],
                "unresolved_calls": ctx.unresolved[:60],
                "notes": ctx.notes,
                **ctx.extra,
            },
            "assumptions": assumptions,
            "wall_s": round(time.time() - t0, 3),
            "violations": len(violations),
        }
        if selftest is not None:
            ev["coverage"]["selftest"] = selftest
        (evdir / f"{ctx.prop}.json").write_text(json.dumps(ev, indent=1, default=str))
    return code
