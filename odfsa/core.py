"""odfsa core: loader, symbol/class tables, constant folding.

Pure stdlib `ast`.  Nothing of odfdo is imported or executed.
"""

from __future__ import annotations

import ast
import os
from pathlib import Path
from typing import Any, Iterable, Iterator

PKG = "odfdo"


class AnalysisError(Exception):
    """The analysis itself cannot run (vanished anchor, parse error, floor)."""


UNKNOWN = object()  # result of constant folding when not a constant


def repo_root() -> Path:
    return Path(os.environ.get("ODFSA_REPO", "/repo"))


class FuncInfo:
    __slots__ = ("name", "qualname", "node", "module", "cls", "kind", "params")

    def __init__(self, name, qualname, node, module, cls, kind):
        self.name = name
        self.qualname = qualname
        self.node = node
        self.module = module
        self.cls = cls
        self.kind = kind  # function|method|static|class|getter|setter|deleter|nested
        a = node.args
        self.params = [x.arg for x in a.posonlyargs + a.args]

    @property
    def file(self) -> str:
        return self.module.relpath

    @property
    def ident(self) -> str:
        k = {"setter": " [setter]", "deleter": " [deleter]"}.get(self.kind, "")
        return self.qualname + k

    def defaults(self) -> dict[str, ast.expr]:
        a = self.node.args
        pos = a.posonlyargs + a.args
        out = {}
        for p, d in zip(pos[len(pos) - len(a.defaults):], a.defaults):
            out[p.arg] = d
        for p, d in zip(a.kwonlyargs, a.kw_defaults):
            if d is not None:
                out[p.arg] = d
        return out

    def all_params(self) -> list[ast.arg]:
        a = self.node.args
        return a.posonlyargs + a.args + a.kwonlyargs

    def has_kwargs(self) -> bool:
        return self.node.args.kwarg is not None

    def __repr__(self) -> str:
        return f"<Func {self.module.name}:{self.ident}>"


class ClassInfo:
    def __init__(self, name, node, module):
        self.name = name
        self.node = node
        self.module = module
        self.base_exprs = node.bases
        self.bases: list[ClassInfo] = []  # package classes only
        self.ext_bases: list[str] = []
        self.methods: dict[str, list[FuncInfo]] = {}
        self.consts: dict[str, ast.expr] = {}  # class-level simple assigns
        self.aliases: dict[str, ast.expr] = {}
        self.mro: list[ClassInfo] = []
        self.subclasses: list[ClassInfo] = []

    @property
    def qualname(self) -> str:
        return self.name

    def is_subclass_of(self, other: "ClassInfo | str") -> bool:
        for c in self.mro:
            if c is other or c.name == other:
                return True
        return False

    def lookup(self, name: str, kind: str | None = None) -> FuncInfo | None:
        """Find method `name` along the MRO.  kind: getter/setter/None(any non-setter)."""
        for c in self.mro:
            for f in c.methods.get(name, ()):
                if kind is None:
                    if f.kind not in ("setter", "deleter"):
                        return f
                elif f.kind == kind:
                    return f
            if name in c.aliases:
                tgt = c.aliases[name]
                if isinstance(tgt, ast.Name) and tgt.id != name:
                    r = c.lookup(tgt.id, kind)
                    if r:
                        return r
                if isinstance(tgt, ast.Attribute) and isinstance(tgt.value, ast.Name):
                    oc = c.module.repo.find_class(tgt.value.id, c.module)
                    if oc:
                        r = oc.lookup(tgt.attr, kind)
                        if r:
                            return r
        return None

    def lookup_const(self, name: str) -> tuple[ast.expr, "ClassInfo"] | None:
        for c in self.mro:
            if name in c.consts:
                return c.consts[name], c
        return None

    def all_subclasses(self) -> list["ClassInfo"]:
        out, seen, work = [], set(), list(self.subclasses)
        while work:
            c = work.pop()
            if id(c) in seen:
                continue
            seen.add(id(c))
            out.append(c)
            work.extend(c.subclasses)
        return out

    def __repr__(self) -> str:
        return f"<Class {self.module.name}.{self.name}>"


class ModuleInfo:
    def __init__(self, repo, name, path, relpath, source):
        self.repo = repo
        self.name = name  # odfdo.table
        self.path = path
        self.relpath = relpath  # src/odfdo/table.py
        self.source = source
        self.lines = source.splitlines()
        self.tree = ast.parse(source, filename=str(path))
        self.imports: dict[str, tuple[str, str | None]] = {}  # local -> (module, attr)
        self.import_order: list[str] = []  # package modules imported, in order
        self.functions: dict[str, FuncInfo] = {}
        self.classes: dict[str, ClassInfo] = {}
        self.assigns: dict[str, ast.expr] = {}
        self.all_funcs: list[FuncInfo] = []
        for n in ast.walk(self.tree):
            for ch in ast.iter_child_nodes(n):
                ch._parent = n  # type: ignore[attr-defined]
        self.tree._parent = None  # type: ignore[attr-defined]

    @property
    def short(self) -> str:
        return self.name[len(PKG) + 1:] if self.name != PKG else "__init__"

    def segment(self, node: ast.AST) -> str:
        try:
            return ast.get_source_segment(self.source, node) or ast.unparse(node)
        except Exception:
            return ast.unparse(node)

    def __repr__(self) -> str:
        return f"<Module {self.name}>"


def _decorator_kind(fn: ast.FunctionDef) -> str:
    for d in fn.decorator_list:
        if isinstance(d, ast.Name):
            if d.id == "property":
                return "getter"
            if d.id == "staticmethod":
                return "static"
            if d.id == "classmethod":
                return "class"
        if isinstance(d, ast.Attribute):
            if d.attr == "setter":
                return "setter"
            if d.attr == "deleter":
                return "deleter"
            if d.attr in ("cached_property",):
                return "getter"
    return "method"


class Repo:
    """Whole-package parse of <root>/src/odfdo with symbol and class tables."""

    def __init__(self, root: Path | str | None = None, overrides: dict[str, str] | None = None):
        self.root = Path(root) if root else repo_root()
        self.src = self.root / "src" / PKG
        self.overrides = overrides or {}
        self.modules: dict[str, ModuleInfo] = {}
        self.by_rel: dict[str, ModuleInfo] = {}
        if not self.src.is_dir():
            raise AnalysisError(f"source directory not found: {self.src}")
        self._load()
        self._symbols()
        self._classes()

    # ---------------------------------------------------------------- load
    def _load(self) -> None:
        paths = sorted(self.src.rglob("*.py"))
        if len(paths) < 40:
            raise AnalysisError(f"only {len(paths)} python files under {self.src}")
        for p in paths:
            rel = p.relative_to(self.root).as_posix()
            parts = list(p.relative_to(self.src.parent).with_suffix("").parts)
            if parts[-1] == "__init__":
                parts.pop()
            name = ".".join(parts)
            src = self.overrides.get(rel)
            if src is None:
                src = p.read_text(encoding="utf-8")
            try:
                m = ModuleInfo(self, name, p, rel, src)
            except SyntaxError as e:
                raise AnalysisError(f"syntax error in {rel}: {e}") from e
            self.modules[name] = m
            self.by_rel[rel] = m

    def module(self, short: str) -> ModuleInfo:
        name = PKG if short in ("", "__init__") else f"{PKG}.{short}"
        m = self.modules.get(name)
        if m is None:
            raise AnalysisError(f"anchor module vanished: {name}")
        return m

    # ------------------------------------------------------------- symbols
    def _resolve_from(self, m: ModuleInfo, node: ast.ImportFrom) -> str | None:
        if node.level == 0:
            return node.module
        is_pkg = m.path.name == "__init__.py"
        base = m.name.split(".")
        if not is_pkg:
            base = base[:-1]
        up = node.level - 1
        if up:
            base = base[:-up]
        if node.module:
            base = base + node.module.split(".")
        return ".".join(base)

    def _symbols(self) -> None:
        for m in self.modules.values():
            for n in ast.walk(m.tree):
                if isinstance(n, ast.ImportFrom):
                    modname = self._resolve_from(m, n)
                    toplevel = getattr(n, "_parent", None) is m.tree
                    for a in n.names:
                        local = a.asname or a.name
                        full = f"{modname}.{a.name}"
                        if full in self.modules:
                            m.imports.setdefault(local, (full, None))
                            if toplevel:
                                m.import_order.append(full)
                        else:
                            m.imports.setdefault(local, (modname or "", a.name))
                    if toplevel and modname in self.modules:
                        m.import_order.append(modname)
                elif isinstance(n, ast.Import):
                    for a in n.names:
                        m.imports.setdefault(a.asname or a.name.split(".")[0], (a.name, None))
            for n in m.tree.body:
                if isinstance(n, (ast.FunctionDef, ast.AsyncFunctionDef)):
                    f = FuncInfo(n.name, n.name, n, m, None, "function")
                    m.functions[n.name] = f
                    m.all_funcs.append(f)
                    self._nested(f, m)
                elif isinstance(n, ast.ClassDef):
                    c = ClassInfo(n.name, n, m)
                    m.classes[n.name] = c
                    for b in n.body:
                        if isinstance(b, (ast.FunctionDef, ast.AsyncFunctionDef)):
                            f = FuncInfo(b.name, f"{n.name}.{b.name}", b, m, c, _decorator_kind(b))
                            c.methods.setdefault(b.name, []).append(f)
                            m.all_funcs.append(f)
                            self._nested(f, m)
                        elif isinstance(b, ast.Assign) and len(b.targets) == 1 and isinstance(b.targets[0], ast.Name):
                            c.consts[b.targets[0].id] = b.value
                            if isinstance(b.value, (ast.Name, ast.Attribute)):
                                c.aliases[b.targets[0].id] = b.value
                        elif isinstance(b, ast.AnnAssign) and isinstance(b.target, ast.Name) and b.value is not None:
                            c.consts[b.target.id] = b.value
                elif isinstance(n, ast.Assign):
                    for t in n.targets:
                        if isinstance(t, ast.Name):
                            m.assigns[t.id] = n.value
                elif isinstance(n, ast.AnnAssign) and isinstance(n.target, ast.Name) and n.value is not None:
                    m.assigns[n.target.id] = n.value

    def _nested(self, outer: FuncInfo, m: ModuleInfo) -> None:
        for n in ast.walk(outer.node):
            if n is outer.node:
                continue
            if isinstance(n, (ast.FunctionDef, ast.AsyncFunctionDef)):
                f = FuncInfo(n.name, f"{outer.qualname}.<locals>.{n.name}", n, m, outer.cls, "nested")
                m.all_funcs.append(f)

    # ------------------------------------------------------------- classes
    def resolve_name(self, name: str, m: ModuleInfo, _depth: int = 0) -> Any:
        """Resolve a bare name in module m to ClassInfo | FuncInfo | ('const', expr, module) | None."""
        if _depth > 8:
            return None
        if name in m.classes:
            return m.classes[name]
        if name in m.functions:
            return m.functions[name]
        if name in m.assigns:
            v = m.assigns[name]
            if isinstance(v, ast.Name) and v.id != name:
                r = self.resolve_name(v.id, m, _depth + 1)
                if r is not None:
                    return r
            return ("const", v, m)
        if name in m.imports:
            modname, attr = m.imports[name]
            if attr is None:
                return self.modules.get(modname)
            tm = self.modules.get(modname)
            if tm is not None:
                return self.resolve_name(attr, tm, _depth + 1)
            return ("ext", f"{modname}.{attr}")
        return None

    def find_class(self, name: str, m: ModuleInfo | None = None) -> ClassInfo | None:
        if m is not None:
            r = self.resolve_name(name, m)
            if isinstance(r, ClassInfo):
                return r
        hits = [mm.classes[name] for mm in self.modules.values() if name in mm.classes]
        if len(hits) == 1:
            return hits[0]
        return None

    def cls(self, name: str) -> ClassInfo:
        c = self.find_class(name)
        if c is None:
            raise AnalysisError(f"anchor class vanished: {name}")
        return c

    def func(self, qual: str, kind: str | None = None) -> FuncInfo:
        """'Class.method' or 'module:function'."""
        f = self.find_func(qual, kind)
        if f is None:
            raise AnalysisError(f"anchor function vanished: {qual}" + (f" [{kind}]" if kind else ""))
        return f

    def find_func(self, qual: str, kind: str | None = None) -> FuncInfo | None:
        if ":" in qual:
            mod, fn = qual.split(":")
            m = self.modules.get(f"{PKG}.{mod}")
            if m is None:
                return None
            return m.functions.get(fn)
        cname, meth = qual.split(".", 1)
        c = self.find_class(cname)
        if c is None:
            return None
        for f in c.methods.get(meth, ()):
            if kind is None and f.kind not in ("setter", "deleter"):
                return f
            if kind is not None and f.kind == kind:
                return f
        # alias inside the class (append = append_cell)
        if meth in c.aliases and isinstance(c.aliases[meth], ast.Name):
            return self.find_func(f"{cname}.{c.aliases[meth].id}", kind)
        return None

    def all_classes(self) -> Iterator[ClassInfo]:
        for m in self.modules.values():
            yield from m.classes.values()

    def all_funcs(self) -> Iterator[FuncInfo]:
        for m in self.modules.values():
            yield from m.all_funcs

    def _classes(self) -> None:
        for c in list(self.all_classes()):
            for b in c.base_exprs:
                r = None
                if isinstance(b, ast.Name):
                    r = self.resolve_name(b.id, c.module)
                if isinstance(r, ClassInfo):
                    c.bases.append(r)
                    r.subclasses.append(c)
                else:
                    c.ext_bases.append(ast.unparse(b))
        memo: dict[int, list[ClassInfo]] = {}

        def mro(c: ClassInfo, stack=()) -> list[ClassInfo]:
            if id(c) in memo:
                return memo[id(c)]
            if c in stack:
                raise AnalysisError(f"cyclic inheritance at {c.name}")
            seqs = [mro(b, stack + (c,))[:] for b in c.bases] + [list(c.bases)]
            res = [c]
            while True:
                seqs = [s for s in seqs if s]
                if not seqs:
                    break
                for s in seqs:
                    cand = s[0]
                    if not any(cand in t[1:] for t in seqs):
                        break
                else:
                    raise AnalysisError(f"inconsistent MRO for {c.name}")
                res.append(cand)
                for s in seqs:
                    if s[0] is cand:
                        del s[0]
            memo[id(c)] = res
            return res

        for c in self.all_classes():
            c.mro = mro(c)

    # ------------------------------------------------------ constant folding
    def fold_class_const(self, cls: ClassInfo, name: str) -> Any:
        lc = cls.lookup_const(name)
        if lc is None:
            return UNKNOWN
        return self.fold(lc[0], lc[1].module, lc[1], {"__class_scope__": True})

    def fold(self, e: ast.expr | None, m: ModuleInfo, cls: ClassInfo | None = None,
             env: dict[str, Any] | None = None, _depth: int = 0) -> Any:
        """Fold an expression to a Python constant (str/int/bool/None/tuple/list/
        set/frozenset/dict) or UNKNOWN."""
        if e is None or _depth > 12:
            return UNKNOWN
        F = lambda x, env2=None: self.fold(x, m, cls, env2 if env2 is not None else env, _depth + 1)  # noqa: E731
        if isinstance(e, ast.Constant):
            return e.value
        if isinstance(e, ast.Name):
            if env and e.id in env:
                return env[e.id]
            if cls is not None and env and env.get("__class_scope__") and e.id in cls.consts:
                return self.fold(cls.consts[e.id], cls.module, cls, env, _depth + 1)
            r = self.resolve_name(e.id, m)
            if isinstance(r, tuple) and r[0] == "const":
                return self.fold(r[1], r[2], None, None, _depth + 1)
            return UNKNOWN
        if isinstance(e, ast.Attribute):
            # Cls.CONST or module.CONST
            if isinstance(e.value, ast.Name):
                if e.value.id in ("self", "cls") and cls is not None:
                    return self.fold_class_const(cls, e.attr)
                if m.imports.get(e.value.id) == ("string", None) and e.attr in (
                        "printable", "ascii_letters", "digits", "ascii_lowercase", "ascii_uppercase", "punctuation", "whitespace", "hexdigits"):
                    import string as _string  # stdlib constants of the analysis host
                    return getattr(_string, e.attr)
                r = self.resolve_name(e.value.id, m)
                if isinstance(r, ClassInfo):
                    return self.fold_class_const(r, e.attr)
                if isinstance(r, ModuleInfo) and e.attr in r.assigns:
                    return self.fold(r.assigns[e.attr], r, None, None, _depth + 1)
            return UNKNOWN
        if isinstance(e, (ast.Tuple, ast.List, ast.Set)):
            vals = []
            for x in e.elts:
                if isinstance(x, ast.Starred):
                    v = F(x.value)
                    if v is UNKNOWN or not isinstance(v, (tuple, list, set, frozenset)):
                        return UNKNOWN
                    vals.extend(v)
                    continue
                v = F(x)
                if v is UNKNOWN:
                    return UNKNOWN
                vals.append(v)
            if isinstance(e, ast.Tuple):
                return tuple(vals)
            if isinstance(e, ast.List):
                return vals
            try:
                return set(vals)
            except TypeError:
                return UNKNOWN
        if isinstance(e, ast.Dict):
            out = {}
            for k, v in zip(e.keys, e.values):
                if k is None:
                    d = F(v)
                    if not isinstance(d, dict):
                        return UNKNOWN
                    out.update(d)
                    continue
                kk, vv = F(k), F(v)
                if kk is UNKNOWN:
                    return UNKNOWN
                try:
                    out[kk] = vv
                except TypeError:
                    return UNKNOWN
            return out
        if isinstance(e, ast.BinOp):
            a, b = F(e.left), F(e.right)
            if a is UNKNOWN or b is UNKNOWN:
                return UNKNOWN
            try:
                if isinstance(e.op, ast.Add):
                    return a + b
                if isinstance(e.op, ast.Sub):
                    return a - b
                if isinstance(e.op, ast.BitOr):
                    return a | b
                if isinstance(e.op, ast.BitAnd):
                    return a & b
                if isinstance(e.op, ast.Mult):
                    return a * b
                if isinstance(e.op, ast.Mod) and isinstance(a, str):
                    return a % b
                if isinstance(e.op, ast.Pow):
                    return a ** b
            except Exception:
                return UNKNOWN
            return UNKNOWN
        if isinstance(e, ast.UnaryOp) and isinstance(e.op, ast.USub):
            v = F(e.operand)
            return -v if isinstance(v, (int, float)) else UNKNOWN
        if isinstance(e, ast.JoinedStr):
            parts = []
            for v in e.values:
                if isinstance(v, ast.Constant):
                    parts.append(str(v.value))
                elif isinstance(v, ast.FormattedValue) and v.format_spec is None and v.conversion == -1:
                    x = F(v.value)
                    if x is UNKNOWN:
                        return UNKNOWN
                    parts.append(str(x))
                else:
                    return UNKNOWN
            return "".join(parts)
        if isinstance(e, ast.Call):
            fn = e.func
            if isinstance(fn, ast.Name) and fn.id in ("set", "frozenset", "tuple", "list", "sorted", "dict") and not e.keywords:
                if not e.args:
                    return {"set": set(), "frozenset": frozenset(), "tuple": (), "list": [], "sorted": [], "dict": {}}[fn.id]
                v = F(e.args[0])
                if v is UNKNOWN:
                    return UNKNOWN
                try:
                    return {"set": set, "frozenset": frozenset, "tuple": tuple, "list": list, "sorted": sorted, "dict": dict}[fn.id](v)
                except Exception:
                    return UNKNOWN
            if isinstance(fn, ast.Attribute) and fn.attr in ("keys", "values", "items") and not e.args:
                v = F(fn.value)
                if isinstance(v, dict):
                    return list(getattr(v, fn.attr)())
                return UNKNOWN
            if isinstance(fn, ast.Attribute) and fn.attr == "get" and 1 <= len(e.args) <= 2 and not e.keywords:
                d = F(fn.value)
                if isinstance(d, dict):
                    k = F(e.args[0])
                    if k is UNKNOWN:
                        return UNKNOWN
                    dflt = F(e.args[1]) if len(e.args) == 2 else None
                    try:
                        return d.get(k, dflt)
                    except TypeError:
                        return UNKNOWN
                return UNKNOWN
            if isinstance(fn, ast.Attribute) and fn.attr == "join" and len(e.args) == 1:
                s, v = F(fn.value), F(e.args[0])
                if isinstance(s, str) and isinstance(v, (list, tuple)) and all(isinstance(x, str) for x in v):
                    return s.join(v)
                return UNKNOWN
            if isinstance(fn, ast.Attribute) and fn.attr in ("union",) :
                a = F(fn.value)
                bs = [F(x) for x in e.args]
                if a is UNKNOWN or any(b is UNKNOWN for b in bs):
                    return UNKNOWN
                try:
                    return set(a).union(*bs)
                except Exception:
                    return UNKNOWN
            return UNKNOWN
        if isinstance(e, (ast.ListComp, ast.SetComp, ast.DictComp, ast.GeneratorExp)):
            return self._fold_comp(e, m, cls, env, _depth)
        if isinstance(e, ast.Subscript):
            v, k = F(e.value), F(e.slice) if not isinstance(e.slice, ast.Slice) else UNKNOWN
            if v is UNKNOWN or k is UNKNOWN:
                return UNKNOWN
            try:
                return v[k]
            except Exception:
                return UNKNOWN
        if isinstance(e, ast.Compare) and len(e.ops) == 1:
            a, b = F(e.left), F(e.comparators[0])
            if a is UNKNOWN or b is UNKNOWN:
                return UNKNOWN
            op = e.ops[0]
            try:
                if isinstance(op, ast.Eq):
                    return a == b
                if isinstance(op, ast.NotEq):
                    return a != b
                if isinstance(op, ast.In):
                    return a in b
                if isinstance(op, ast.NotIn):
                    return a not in b
                if isinstance(op, ast.Is) and (b is None or isinstance(b, bool)):
                    return a is b
                if isinstance(op, ast.IsNot) and (b is None or isinstance(b, bool)):
                    return a is not b
            except Exception:
                return UNKNOWN
            return UNKNOWN
        if isinstance(e, ast.BoolOp):
            is_and = isinstance(e.op, ast.And)
            unknown = False
            last: Any = True if is_and else False
            for sub in e.values:
                v = F(sub)
                if v is UNKNOWN:
                    unknown = True
                    continue
                if unknown:
                    # an earlier operand is unknown: only a deciding constant settles the result
                    if is_and and not v:
                        return False if isinstance(v, bool) else UNKNOWN
                    if (not is_and) and v:
                        return UNKNOWN
                    continue
                last = v
                if is_and and not v:
                    return v
                if (not is_and) and v:
                    return v
            return UNKNOWN if unknown else last
        if isinstance(e, ast.UnaryOp) and isinstance(e.op, ast.Not):
            v = F(e.operand)
            return UNKNOWN if v is UNKNOWN else (not v)
        return UNKNOWN

    def _fold_comp(self, e, m, cls, env, depth):
        if len(e.generators) != 1:
            return UNKNOWN
        g = e.generators[0]
        it = self.fold(g.iter, m, cls, env, depth + 1)
        if it is UNKNOWN:
            return UNKNOWN
        if isinstance(it, dict):
            it = list(it)
        out_l, out_d = [], {}
        try:
            seq = list(it)
        except TypeError:
            return UNKNOWN
        for item in seq:
            env2 = dict(env or {})
            if isinstance(g.target, ast.Name):
                env2[g.target.id] = item
            elif isinstance(g.target, ast.Tuple) and all(isinstance(x, ast.Name) for x in g.target.elts):
                try:
                    if len(item) != len(g.target.elts):
                        return UNKNOWN
                except TypeError:
                    return UNKNOWN
                for t, v in zip(g.target.elts, item):
                    env2[t.id] = v
            else:
                return UNKNOWN
            ok = True
            for cond in g.ifs:
                c = self.fold(cond, m, cls, env2, depth + 1)
                if c is UNKNOWN:
                    return UNKNOWN
                if not c:
                    ok = False
                    break
            if not ok:
                continue
            if isinstance(e, ast.DictComp):
                k = self.fold(e.key, m, cls, env2, depth + 1)
                v = self.fold(e.value, m, cls, env2, depth + 1)
                if k is UNKNOWN:
                    return UNKNOWN
                out_d[k] = v
            else:
                v = self.fold(e.elt, m, cls, env2, depth + 1)
                if v is UNKNOWN:
                    return UNKNOWN
                out_l.append(v)
        if isinstance(e, ast.DictComp):
            return out_d
        if isinstance(e, ast.SetComp):
            try:
                return set(out_l)
            except TypeError:
                return UNKNOWN
        return out_l


# ---------------------------------------------------------------- AST helpers

def parent(n: ast.AST) -> ast.AST | None:
    return getattr(n, "_parent", None)


def ancestors(n: ast.AST) -> Iterator[ast.AST]:
    p = parent(n)
    while p is not None:
        yield p
        p = parent(p)


def enclosing_stmt(n: ast.AST) -> ast.stmt | None:
    cur = n
    while cur is not None and not isinstance(cur, ast.stmt):
        cur = parent(cur)
    return cur  # type: ignore[return-value]


def walk_no_nested(node: ast.AST) -> Iterator[ast.AST]:
    """ast.walk that does not descend into nested function/class/lambda bodies."""
    stack = [node]
    first = True
    while stack:
        n = stack.pop()
        if not first and isinstance(n, (ast.FunctionDef, ast.AsyncFunctionDef, ast.ClassDef, ast.Lambda)):
            continue
        first = False
        yield n
        stack.extend(reversed(list(ast.iter_child_nodes(n))))


def body_no_doc(fn: ast.FunctionDef) -> list[ast.stmt]:
    b = fn.body
    if b and isinstance(b[0], ast.Expr) and isinstance(b[0].value, ast.Constant) and isinstance(b[0].value.value, str):
        return b[1:]
    return b


def calls_in(node: ast.AST) -> list[ast.Call]:
    return [n for n in walk_no_nested(node) if isinstance(n, ast.Call)]


def call_name(c: ast.AST) -> str:
    """name of the function or method a Call invokes; "" for anything else"""
    if not isinstance(c, ast.Call):
        return ""
    f = c.func
    if isinstance(f, ast.Name):
        return f.id
    if isinstance(f, ast.Attribute):
        return f.attr
    return ""


def is_self_attr(e: ast.AST, attr: str | None = None, selfname: str = "self") -> bool:
    return (isinstance(e, ast.Attribute) and isinstance(e.value, ast.Name) and e.value.id == selfname
            and (attr is None or e.attr == attr))


def get_arg(c: ast.Call, pos: int | None, name: str | None) -> ast.expr | None:
    if name is not None:
        for k in c.keywords:
            if k.arg == name:
                return k.value
    if pos is not None and pos < len(c.args) and not any(isinstance(a, ast.Starred) for a in c.args[:pos + 1]):
        return c.args[pos]
    return None


def norm(node: ast.AST | str, limit: int = 120) -> str:
    """Normalised text of a construct for finding identities (no positions)."""
    s = node if isinstance(node, str) else ast.unparse(node)
    s = " ".join(s.split())
    return s if len(s) <= limit else s[: limit - 1] + "…"


def names_in(e: ast.AST) -> set[str]:
    return {n.id for n in ast.walk(e) if isinstance(n, ast.Name)}


def mangle(cls_name: str, attr: str) -> str:
    if attr.startswith("__") and not attr.endswith("__"):
        return f"_{cls_name.lstrip('_')}{attr}"
    return attr
