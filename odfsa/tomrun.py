"""Run TOM over every method of Table and Row and classify the findings by rule.

Rules produced here (consumed by the C01 / C02 / C07 / C08 / C17 rule modules):
  R01a  cells of a possibly repeated row edited / detached edited row not pushed back
  R02a  position map read or left obsolete
  R02b  wrapper index left stale (renumbering, or mutation through a foreign wrapper)
  R07b  a live row may have grown without a width-sync event
  R08a  a documented-copy getter hands out a live wrapper (default flags)
"""

from __future__ import annotations

import ast

from .core import FuncInfo, Repo, norm
from .tom import CLEAN, DETACHED, EXT, FOREIGN, OWN, STALE, Tom

COPY_GETTERS = {
    "Table": ["get_cell", "get_row", "get_cells", "cells", "get_rows", "rows", "traverse", "get_column", "get_columns", "columns",
              "traverse_columns", "get_column_cells"],
    "Row": ["get_cell", "get_cells", "cells", "traverse"],
}
STAMPS = {"Cell": {"x", "y"}, "Row": {"y"}, "Column": {"x"}}


class TomResult:
    def __init__(self):
        self.findings: list[tuple] = []  # (rule, f, node, construct, message, path)
        self.instances: list[tuple] = []  # (rule, where, what, ok, line)
        self.stats: dict = {}




def _reachable_ws(world, fr, val):
    out = {}
    for k, v in fr.env.items():
        if v and v[0] in ("w", "lst") and v[1] in world.ws:
            out[k] = world.ws[v[1]]
    if val and val[0] in ("w", "lst") and val[1] in world.ws:
        out["<return>"] = world.ws[val[1]]
    return out


def run_tom(repo: Repo) -> TomResult:
    cached = getattr(repo, "_odfsa_tom", None)
    if cached is not None:
        return cached
    res = TomResult()
    seen = set()

    def report(rule, f, node, construct, message, path=None):
        key = (rule, f.ident, construct)
        if key in seen:
            return
        seen.add(key)
        res.findings.append((rule, f, node, construct, message, path or []))

    tom = Tom(repo, report)
    for cname in ("Table", "Row"):
        c = repo.cls(cname)
        classes = [c] + ([x for x in c.mro if x.name.startswith("MD")] if cname == "Table" else [])
        for cc in classes:
            for name, fs in sorted(cc.methods.items()):
                for f in fs:
                    public = not name.startswith("_") or name == "__init__"
                    before = len(res.findings)

                    def on_exit(t, f_, world, val, fr, public=public, cname=cname):
                        o = world.owner(fr)
                        if o is None or not public:
                            return
                        for m, st in o.maps.items():
                            ok = st == CLEAN
                            if not ok:
                                report("R02a", f_, f_.node, f"{m} left obsolete at exit",
                                       f"a structural change of the XML is not followed by restoring position map {m} before "
                                       f"{cname}.{f_.name} returns: later reads are served from an obsolete map")
                        for m, st in o.idx.items():
                            if st == STALE:
                                report("R02b", f_, f_.node, f"index of {m} left stale at exit",
                                       f"{cname}.{f_.name} renumbers items or edits them through other wrappers and returns without "
                                       f"dropping self._indexes[{m!r}]: cached wrappers (with their own private maps) are served afterwards")
                        for nm, w in _reachable_ws(world, fr, val).items():
                            if cname != "Table" or w.cls != "Row":
                                continue
                            if w.prov == DETACHED and w.mutated and not w.pushed and w.origin in ("cloned", "fetched", "new"):
                                report("R01a", f_, f_.node, f"edited row copy {nm!r} not pushed back",
                                       f"row {nm!r} is a detached copy whose cells were edited, but no set_row/append_row/insert_row "
                                       f"pushes it back on this path: the edit is lost")
                            if w.prov in (OWN, FOREIGN) and w.grew and not w.allrows:
                                report("R07b", f_, f_.node, f"row {nm!r} may have grown without width sync",
                                       f"cells may have been added to live row {nm!r} and no width-sync event (_update_width / set_row / "
                                       f"append_row / insert_row) follows before the return: the row can be wider than the declared columns")

                    tom.analyse_method(f, on_exit)
                    res.instances.append(("TOM", f"{f.file}:{f.ident}", "method interpreted with all callees inlined", True, f.node.lineno))
    # R08a with default flags
    tom2 = Tom(repo, report, default_flags=True)
    for cname, names in COPY_GETTERS.items():
        c = repo.cls(cname)
        for name in names:
            f = c.lookup(name) or c.lookup(name, "getter")
            if f is None:
                from .core import AnalysisError
                raise AnalysisError(f"R08a: documented-copy getter vanished: {cname}.{name}")
            outs = []

            def on_exit(t, f_, world, val, fr):
                if val and val[0] in ("w", "lst") and val[1] in world.ws:
                    outs.append((world.ws[val[1]], None))

            w_end = tom2.analyse_method(f, on_exit)
            fr0 = None
            # yields of the getter itself
            # (frames are popped; the yields list is kept on the Frame object reachable through exits)
            # re-run bookkeeping: analyse_method keeps the top frame in tom2.last_frame
            fr0 = getattr(tom2, "last_frame", None)
            for (yw, v, node) in (fr0.yields if fr0 is not None and fr0.f is f else []):
                if v and v[0] in ("w", "lst") and v[1] in yw.ws:
                    outs.append((yw.ws[v[1]], node))
            live = [(w, n) for w, n in outs if w.prov in (OWN, FOREIGN)]
            stamped_ok = all(STAMPS.get(w.cls, set()) <= set(w.stamps) for w, n in outs if w.prov not in (OWN, FOREIGN)) if outs else True
            res.instances.append(("R08a", f"{f.file}:{cname}.{name}", f"{len(outs)} returned/yielded wrapper value(s) detached under default flags",
                                  not live, f.node.lineno))
            for w, n in live:
                site_f, site_n = (w.site if w.site else (f, n or f.node))
                report("R08a", site_f, site_n, f"live {w.cls} handed out: {norm(site_n, 50)}",
                       f"a live {w.cls} wrapper ({w.prov.lower()}, not a clone) reaches the caller of {cname}.{name}, which is documented to "
                       f"return copies: modifying it changes the table without set_*()", [f"escapes through {cname}.{name}"])
            res.instances.append(("R08b", f"{f.file}:{cname}.{name}", f"returned {', '.join(sorted({w.cls for w, _ in outs})) or 'nothing tracked'} "
                                  f"carries its coordinates", stamped_ok, f.node.lineno))
            if not stamped_ok:
                bad = [w for w, n in outs if not (STAMPS.get(w.cls, set()) <= set(w.stamps)) and w.prov not in (OWN, FOREIGN)]
                report("R08b", f, f.node, f"{cname}.{name} returns {bad[0].cls} without {sorted(STAMPS[bad[0].cls] - set(bad[0].stamps))}",
                       f"a {bad[0].cls} returned by {cname}.{name} is not stamped with coordinate(s) "
                       f"{sorted(STAMPS[bad[0].cls] - set(bad[0].stamps))} on some path")
    res.stats = {k: (sorted(v) if isinstance(v, set) else v) for k, v in tom.stats.items()}
    res.stats["default_flag_runs"] = tom2.stats["methods"]
    repo._odfsa_tom = res  # type: ignore[attr-defined]
    return res
