"""Path-query helpers on top of cfg.CFG."""

from __future__ import annotations

import ast
from typing import Callable, Iterable

from .cfg import CFG, Node
from .core import FuncInfo, enclosing_stmt, parent, walk_no_nested

def cfg_of(f: FuncInfo) -> CFG:
    # cached on the AST node itself (an id()-keyed dict would hand out stale graphs once a Repo is collected and ids are reused)
    c = getattr(f.node, "_odfsa_cfg", None)
    if c is None:
        c = CFG(f.node)
        f.node._odfsa_cfg = c  # type: ignore[attr-defined]
    return c


def node_of(cfg: CFG, n: ast.AST) -> Node | None:
    """CFG node of the statement that evaluates AST node n (the header node for compound statements)."""
    cur: ast.AST | None = n
    while cur is not None:
        if id(cur) in cfg.by_stmt:
            return cfg.by_stmt[id(cur)]
        cur = parent(cur)
    return None


def calls(f: FuncInfo, pred: Callable[[ast.Call], bool]) -> list[ast.Call]:
    return [n for n in walk_no_nested(f.node) if isinstance(n, ast.Call) and pred(n)]


def is_none_test(test: ast.expr, var: str) -> bool | None:
    """True for `var is None` / `not var`; False for `var is not None` / `var`; None otherwise."""
    if isinstance(test, ast.Compare) and len(test.ops) == 1 and ast.unparse(test.left) == var \
            and isinstance(test.comparators[0], ast.Constant) and test.comparators[0].value is None:
        if isinstance(test.ops[0], ast.Is):
            return True
        if isinstance(test.ops[0], ast.IsNot):
            return False
    if isinstance(test, ast.UnaryOp) and isinstance(test.op, ast.Not):
        if ast.unparse(test.operand) == var:
            return True
        r = is_none_test(test.operand, var)
        return None if r is None else (not r)
    if ast.unparse(test) == var:
        return False
    return None


def guarded_not_none(n: ast.AST, var: str, stop: ast.AST | None = None) -> bool:
    """The statement holding n only runs when `var` is not None (structural guards:
    body of `if var is not None`, orelse of `if var is None`, or after a sibling
    `if var is None: continue/return/raise/break`)."""
    cur = enclosing_stmt(n)
    while cur is not None and cur is not stop:
        par = parent(cur)
        if par is None:
            break
        if isinstance(par, (ast.If, ast.While)):
            t = is_none_test(par.test, var)
            if t is False and cur in par.body:
                return True
            if t is True and cur in par.orelse:
                return True
        for field in ("body", "orelse", "finalbody"):
            blk = getattr(par, field, None)
            if isinstance(blk, list) and cur in blk:
                for s in blk[: blk.index(cur)]:
                    if isinstance(s, ast.If) and is_none_test(s.test, var) is True and s.body \
                            and isinstance(s.body[-1], (ast.Continue, ast.Return, ast.Raise, ast.Break)):
                        return True
        if isinstance(par, (ast.FunctionDef, ast.AsyncFunctionDef)):
            break
        cur = par
    return False


def structural_guards(n: ast.AST, stop: ast.AST | None = None) -> list[tuple[ast.expr, bool]]:
    """(test, polarity) of every enclosing if/while, plus (test, False) for earlier sibling
    `if test: <terminates>` statements, innermost last."""
    out = []
    cur = enclosing_stmt(n)
    while cur is not None and cur is not stop:
        par = parent(cur)
        if par is None:
            break
        for field in ("body", "orelse", "finalbody"):
            blk = getattr(par, field, None)
            if isinstance(blk, list) and cur in blk:
                for s in blk[: blk.index(cur)]:
                    if isinstance(s, ast.If) and not s.orelse and s.body and \
                            isinstance(s.body[-1], (ast.Continue, ast.Return, ast.Raise, ast.Break)):
                        out.append((s.test, False))
        if isinstance(par, (ast.If, ast.While)):
            if cur in par.body:
                out.append((par.test, True))
            elif cur in par.orelse:
                out.append((par.test, False))
        if isinstance(par, (ast.FunctionDef, ast.AsyncFunctionDef)):
            break
        cur = par
    # `not c` taken  ==  `c` not taken: rules see the core test with the polarity adjusted, so `if not c: B else: A` reads like `if c: A else: B`
    norm_out = []
    for t, pol in out[::-1]:
        while isinstance(t, ast.UnaryOp) and isinstance(t.op, ast.Not):
            t, pol = t.operand, not pol
        norm_out.append((t, pol))
    return norm_out


def if_arms(n: ast.If) -> tuple[ast.expr, list[ast.stmt], list[ast.stmt]]:
    """(core test, statements run when the core test holds, statements run when it does not) — leading `not`s removed."""
    t, a, b = n.test, n.body, n.orelse
    while isinstance(t, ast.UnaryOp) and isinstance(t.op, ast.Not):
        t, a, b = t.operand, b, a
    return t, a, b


def enclosing_loops(n: ast.AST) -> list[ast.AST]:
    out = []
    cur = parent(n)
    while cur is not None and not isinstance(cur, (ast.FunctionDef, ast.AsyncFunctionDef)):
        if isinstance(cur, (ast.For, ast.While)):
            out.append(cur)
        cur = parent(cur)
    return out


def _own_stores(node: Node, var: str) -> bool:
    """Does the CFG node's own evaluation (not its nested blocks) bind `var`?"""
    s = node.stmt
    if s is None:
        return False

    def binds(t) -> bool:
        return any(isinstance(x, ast.Name) and x.id == var and isinstance(x.ctx, (ast.Store, ast.Del)) for x in ast.walk(t))

    if node.kind == "for" and isinstance(s, (ast.For, ast.AsyncFor)):
        return binds(s.target)
    if node.kind == "with" and isinstance(s, (ast.With, ast.AsyncWith)):
        return any(i.optional_vars is not None and binds(i.optional_vars) for i in s.items)
    if node.kind == "except" and isinstance(s, ast.ExceptHandler):
        return s.name == var
    if node.kind == "test":
        t = getattr(s, "test", None) or getattr(s, "subject", None)
        return t is not None and any(isinstance(x, ast.NamedExpr) and binds(x.target) for x in ast.walk(t))
    if isinstance(s, (ast.Assign, ast.AugAssign, ast.AnnAssign, ast.Delete)):
        tg = s.targets if isinstance(s, (ast.Assign, ast.Delete)) else [s.target]
        if any(binds(t) for t in tg):
            return True
    if isinstance(s, (ast.Import, ast.ImportFrom)):
        return any((a.asname or a.name.split(".")[0]) == var for a in s.names)
    if isinstance(s, (ast.FunctionDef, ast.AsyncFunctionDef, ast.ClassDef)):
        return s.name == var
    return any(isinstance(x, ast.NamedExpr) and binds(x.target) for x in ast.walk(s)) if isinstance(s, ast.stmt) and not isinstance(
        s, (ast.If, ast.For, ast.While, ast.With, ast.Try, ast.FunctionDef, ast.ClassDef)) else False


def reaching_defs(cfg: CFG, var: str) -> dict[int, frozenset[int]]:
    """Classical reaching definitions of one local: node id → ids of the definition nodes whose value of `var`
    may be current when the node *starts* (the entry node stands for the parameter / unbound)."""
    gen = {n.id: _own_stores(n, var) for n in cfg.nodes}
    IN: dict[int, set[int]] = {n.id: set() for n in cfg.nodes}
    OUT: dict[int, set[int]] = {n.id: set() for n in cfg.nodes}
    OUT[cfg.entry.id] = {cfg.entry.id}
    work = list(cfg.nodes)
    while work:
        n = work.pop(0)
        if n is cfg.entry:
            new_out = {cfg.entry.id}
        else:
            i = set()
            for p in n.pred:
                i |= OUT[p.id]
            IN[n.id] = i
            new_out = {n.id} if gen[n.id] else i
        if new_out != OUT[n.id]:
            OUT[n.id] = set(new_out)
            for s, _ in n.succ:
                if s not in work:
                    work.append(s)
    return {k: frozenset(v) for k, v in IN.items()}


def canon(f: FuncInfo, e: ast.AST, _depth: int = 0) -> str:
    """Canonical text of an expression with local aliases resolved: a local whose every definition in the function is the same
    attribute chain on `self` (or a parameter, or a call of one named function) is replaced by that definition.  Rules compare
    canonical texts, so `container = self.container; container.save(…)` and `self.container.save(…)` read alike whatever the local
    is called."""
    if _depth > 4:
        return ast.unparse(e)
    if isinstance(e, ast.Name):
        params = {a.arg for a in f.all_params()}
        if e.id in params or e.id == "self":
            return e.id
        defs = [a.value for a in walk_no_nested(f.node) if isinstance(a, ast.Assign) and any(isinstance(t, ast.Name) and t.id == e.id for t in a.targets)]
        defs += [a.value for a in walk_no_nested(f.node) if isinstance(a, ast.AnnAssign) and a.value is not None and isinstance(a.target, ast.Name) and a.target.id == e.id]
        if any(any(isinstance(x, ast.Name) and x.id == e.id for x in ast.walk(d)) for d in defs):
            return e.id  # defined in terms of itself (x = x.clone): no canonical form
        texts = {canon(f, d, _depth + 1) for d in defs if isinstance(d, (ast.Attribute, ast.Call, ast.Subscript, ast.Name))}
        if len(texts) == 1 and len(defs) == len([d for d in defs if isinstance(d, (ast.Attribute, ast.Call, ast.Subscript, ast.Name))]):
            return next(iter(texts))
        return e.id
    if isinstance(e, ast.Attribute):
        return f"{canon(f, e.value, _depth + 1)}.{e.attr}"
    if isinstance(e, ast.Call):
        fn = canon(f, e.func, _depth + 1)
        return f"{fn}({', '.join(canon(f, a, _depth + 1) for a in e.args)})"
    if isinstance(e, ast.Subscript):
        return f"{canon(f, e.value, _depth + 1)}[{canon(f, e.slice, _depth + 1)}]"
    return ast.unparse(e)
