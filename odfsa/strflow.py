"""String-building expressions as lists of literal parts and interpolated fields,
and a small intra-procedural "flows-to" relation between local variables."""

from __future__ import annotations

import ast
import re
from typing import Iterator

from .core import FuncInfo, walk_no_nested

Part = tuple  # ('lit', text) | ('field', expr)


def parts(e: ast.expr) -> list[Part] | None:
    """Flatten a string-building expression.  None when `e` builds no string from pieces."""
    if isinstance(e, ast.Constant) and isinstance(e.value, str):
        return [("lit", e.value)]
    if isinstance(e, ast.JoinedStr):
        out: list[Part] = []
        for v in e.values:
            if isinstance(v, ast.Constant):
                out.append(("lit", str(v.value)))
            elif isinstance(v, ast.FormattedValue):
                out.append(("field", v.value))
        return out
    if isinstance(e, ast.BinOp) and isinstance(e.op, ast.Add):
        a, b = parts(e.left), parts(e.right)
        if a is None and b is None:
            return None
        return (a if a is not None else [("field", e.left)]) + (b if b is not None else [("field", e.right)])
    if isinstance(e, ast.BinOp) and isinstance(e.op, ast.Mod) and isinstance(e.left, ast.Constant) and isinstance(e.left.value, str):
        fmt = e.left.value
        args = list(e.right.elts) if isinstance(e.right, ast.Tuple) else [e.right]
        out = []
        pos = 0
        i = 0
        for mt in re.finditer(r"%(?:\([^)]*\))?[#0\- +]*\d*(?:\.\d+)?[sdrifxXeEgG%]", fmt):
            out.append(("lit", fmt[pos:mt.start()]))
            pos = mt.end()
            if mt.group().endswith("%"):
                out.append(("lit", "%"))
                continue
            if i < len(args):
                out.append(("field", args[i]))
            i += 1
        out.append(("lit", fmt[pos:]))
        return out
    if isinstance(e, ast.Call) and isinstance(e.func, ast.Attribute) and e.func.attr == "format" \
            and isinstance(e.func.value, ast.Constant) and isinstance(e.func.value.value, str):
        fmt = e.func.value.value
        out = []
        pos = 0
        i = 0
        kw = {k.arg: k.value for k in e.keywords if k.arg}
        for mt in re.finditer(r"\{([^{}:!]*)(?:![rsa])?(?::[^{}]*)?\}", fmt):
            out.append(("lit", fmt[pos:mt.start()]))
            pos = mt.end()
            key = mt.group(1)
            if key == "" and i < len(e.args):
                out.append(("field", e.args[i]))
                i += 1
            elif key.isdigit() and int(key) < len(e.args):
                out.append(("field", e.args[int(key)]))
            elif key in kw:
                out.append(("field", kw[key]))
            else:
                out.append(("field", ast.Name(id=key or "?", ctx=ast.Load())))
        out.append(("lit", fmt[pos:]))
        return out
    return None


def string_builders(fn_node: ast.AST) -> Iterator[ast.expr]:
    """Outermost string-building expressions with at least one field."""
    seen: set[int] = set()
    for n in walk_no_nested(fn_node):
        if id(n) in seen or not isinstance(n, ast.expr):
            continue
        p = parts(n) if isinstance(n, (ast.JoinedStr, ast.BinOp, ast.Call)) else None
        if p and any(k == "field" for k, _ in p):
            for sub in ast.walk(n):
                seen.add(id(sub))
            yield n


def quoted_fields(ps: list[Part]) -> list[tuple[int, ast.expr, str, str]]:
    """Fields sitting between matching quote characters of the surrounding literal
    text: (index, expr, quote char, literal context before)."""
    out = []
    for i, (k, v) in enumerate(ps):
        if k != "field":
            continue
        before = ps[i - 1][1] if i > 0 and ps[i - 1][0] == "lit" else ""
        after = ps[i + 1][1] if i + 1 < len(ps) and ps[i + 1][0] == "lit" else ""
        if before and after and before[-1] in "\"'" and after[0] == before[-1]:
            out.append((i, v, before[-1], before))
    return out


def predicate_value_fields(ps: list[Part]) -> list[tuple[int, ast.expr, str]]:
    """Unquoted fields placed right after '=' inside an XPath predicate: `[@a={x}]`."""
    out = []
    depth_text = ""
    for i, (k, v) in enumerate(ps):
        if k == "lit":
            depth_text += v
            continue
        before = ps[i - 1][1] if i > 0 and ps[i - 1][0] == "lit" else ""
        if before.rstrip().endswith("=") and depth_text.count("[") > depth_text.count("]"):
            out.append((i, v, before))
    return out


STR_METHODS = {"strip", "lstrip", "rstrip", "lower", "upper", "replace", "format", "encode", "decode",
               "removeprefix", "removesuffix", "title", "casefold", "join"}


def str_sources(e: ast.expr | None, query_funcs: set[str] | frozenset = frozenset()) -> set[str]:
    """Local names the *string value* of `e` may be built from (string-preserving operations only)."""
    if e is None:
        return set()
    if isinstance(e, ast.Name):
        return {e.id}
    if isinstance(e, ast.Constant):
        return set()
    if isinstance(e, ast.JoinedStr):
        out = set()
        for v in e.values:
            if isinstance(v, ast.FormattedValue):
                out |= str_sources(v.value, query_funcs)
        return out
    if isinstance(e, ast.BinOp) and isinstance(e.op, (ast.Add, ast.Mod)):
        return str_sources(e.left, query_funcs) | str_sources(e.right, query_funcs)
    if isinstance(e, ast.IfExp):
        return str_sources(e.body, query_funcs) | str_sources(e.orelse, query_funcs)
    if isinstance(e, ast.BoolOp):
        out = set()
        for v in e.values:
            out |= str_sources(v, query_funcs)
        return out
    if isinstance(e, (ast.Tuple, ast.List)):
        out = set()
        for v in e.elts:
            out |= str_sources(v, query_funcs)
        return out
    if isinstance(e, ast.Subscript):
        return str_sources(e.value, query_funcs)
    if isinstance(e, ast.NamedExpr):
        return str_sources(e.value, query_funcs)
    if isinstance(e, (ast.ListComp, ast.GeneratorExp)):
        return str_sources(e.elt, query_funcs)
    if isinstance(e, ast.Call):
        f = e.func
        if isinstance(f, ast.Name) and f.id == "str" and e.args:
            return str_sources(e.args[0], query_funcs)
        if isinstance(f, ast.Attribute) and f.attr == "join" and e.args:
            return str_sources(e.args[0], query_funcs) | str_sources(f.value, query_funcs)
        if isinstance(f, ast.Attribute) and f.attr in STR_METHODS:
            out = str_sources(f.value, query_funcs)
            if f.attr in ("format", "replace"):
                for a in e.args:
                    out |= str_sources(a, query_funcs)
            return out
        nm = f.id if isinstance(f, ast.Name) else (f.attr if isinstance(f, ast.Attribute) else "")
        if nm in query_funcs:
            out = set()
            for a in e.args:
                out |= str_sources(a, query_funcs)
            for k in e.keywords:
                out |= str_sources(k.value, query_funcs)
            return out
    return set()


class LocalFlow:
    """Flow-insensitive def-use closure between local names of one function, following
    string-preserving operations only: a → b when the string value of b may be built from a."""

    def __init__(self, f: FuncInfo, query_funcs: set[str] | frozenset = frozenset()):
        self.f = f
        self.q = query_funcs
        self.edges: dict[str, set[str]] = {}
        self.defs: dict[str, list[ast.expr]] = {}
        for n in walk_no_nested(f.node):
            if isinstance(n, ast.Assign):
                for t in n.targets:
                    self._assign(t, n.value)
            elif isinstance(n, ast.AnnAssign) and n.value is not None:
                self._assign(n.target, n.value)
            elif isinstance(n, ast.AugAssign):
                self._assign(n.target, n.value)
            elif isinstance(n, ast.NamedExpr):
                self._assign(n.target, n.value)
            elif isinstance(n, ast.Call) and isinstance(n.func, ast.Attribute) and isinstance(n.func.value, ast.Name) \
                    and n.func.attr in ("append", "extend", "insert", "add"):
                for a in n.args:
                    self._flow(a, n.func.value.id)
                    self.defs.setdefault(n.func.value.id, []).append(a)
            elif isinstance(n, (ast.For, ast.comprehension)):
                for t in ast.walk(n.target):
                    if isinstance(t, ast.Name):
                        self._flow(n.iter, t.id)
                        self.defs.setdefault(t.id, []).append(n.iter)

    def _assign(self, target, value):
        if isinstance(target, (ast.Tuple, ast.List)) and isinstance(value, (ast.Tuple, ast.List)) \
                and len(target.elts) == len(value.elts):
            for t, v in zip(target.elts, value.elts):
                self._assign(t, v)
            return
        for t in ast.walk(target):
            if isinstance(t, ast.Name) and isinstance(t.ctx, ast.Store):
                self._flow(value, t.id)
                self.defs.setdefault(t.id, []).append(value)
            elif isinstance(t, ast.Subscript) and isinstance(t.value, ast.Name):
                self._flow(value, t.value.id)
                self.defs.setdefault(t.value.id, []).append(value)

    def _flow(self, expr, dst: str):
        for name in str_sources(expr, self.q):
            self.edges.setdefault(name, set()).add(dst)

    def closure(self, names: set[str]) -> set[str]:
        out = set(names)
        work = list(names)
        while work:
            a = work.pop()
            for b in self.edges.get(a, ()):
                if b not in out:
                    out.add(b)
                    work.append(b)
        return out
