"""Rule self-test (thorough tier).

Every rule module lists SEEDS: small edits of the *current* source, applied in
memory (Repo overrides — nothing is written anywhere) and re-analysed.

  fault seed   : breaks one obligation; the named rule must report a finding
                 that the unchanged tree does not have.
  neutral seed : changes layout/names only (whole-file ast.unparse round trip,
                 which moves every line and drops comments, plus explicit
                 rewrites); the set of finding identities must not change.

A seed whose anchor text no longer exists is reported as skipped, not failed
(the source moved on; the rule itself is still checked by the other seeds and
by the instance floors).  A failed seed is an analysis failure (exit 2).
"""

from __future__ import annotations

import ast
import importlib
import os
from concurrent.futures import ProcessPoolExecutor
from dataclasses import dataclass, field
from typing import Callable

from .core import AnalysisError, Repo
from .report import Ctx


@dataclass
class Seed:
    name: str
    kind: str  # fault | neutral
    file: str  # src/odfdo/...
    old: str | None = None  # text to replace (must occur exactly `count` times)
    new: str | None = None
    expect: str | None = None  # rule id expected to fire (fault)
    count: int = 1
    edits: list | None = None  # further (file, old, new) edits


def unparse_seed(file: str) -> Seed:
    return Seed(f"unparse:{file}", "neutral", file)


RENAME = "\0rename-locals"


def rename_seed(file: str) -> Seed:
    """Neutral seed: every local variable of every function of the file gets another name (parameters, attributes, globals and
    everything else that is part of an interface keep theirs).  A rule that fires on it is bound to a spelling, not to the program."""
    return Seed(f"rename-locals:{file}", "neutral", file, old=RENAME)


INVERT = "\0invert-if-else"
NOOP = "\0insert-noop"


def invert_seed(file: str) -> Seed:
    """Neutral seed: every two-armed `if c: A else: B` (not an elif chain) becomes `if not (c): B else: A`."""
    return Seed(f"invert-if-else:{file}", "neutral", file, old=INVERT)


def noop_seed(file: str) -> Seed:
    """Neutral seed: every function body starts with an assignment to a fresh local that is never read."""
    return Seed(f"insert-noop:{file}", "neutral", file, old=NOOP)


def invert_if_else(src: str) -> str:
    tree = ast.parse(src)

    class T(ast.NodeTransformer):
        def visit_If(self, node: ast.If):
            self.generic_visit(node)
            if node.orelse and not (len(node.orelse) == 1 and isinstance(node.orelse[0], ast.If)):
                # keep walrus bindings and chained elifs as they are
                if any(isinstance(x, ast.NamedExpr) for x in ast.walk(node.test)):
                    return node
                t = node.test
                if isinstance(t, ast.UnaryOp) and isinstance(t.op, ast.Not):
                    nt = t.operand
                else:
                    nt = ast.UnaryOp(op=ast.Not(), operand=t)
                return ast.copy_location(ast.If(test=nt, body=node.orelse, orelse=node.body), node)
            return node

    tree = T().visit(tree)
    ast.fix_missing_locations(tree)
    return ast.unparse(tree) + "\n"


def insert_noop(src: str) -> str:
    tree = ast.parse(src)
    for fn in ast.walk(tree):
        if isinstance(fn, (ast.FunctionDef, ast.AsyncFunctionDef)):
            i = 1 if (fn.body and isinstance(fn.body[0], ast.Expr) and isinstance(fn.body[0].value, ast.Constant) and isinstance(fn.body[0].value.value, str)) else 0
            if any(isinstance(x, (ast.Yield, ast.YieldFrom)) for x in ast.walk(fn)) and False:
                continue
            stmt = ast.parse("zq_unused_rn = None").body[0]
            fn.body.insert(i, stmt)
    ast.fix_missing_locations(tree)
    return ast.unparse(tree) + "\n"


def alpha_rename(src: str, suffix: str = "_rn") -> str:
    tree = ast.parse(src)
    taken = {n.id for n in ast.walk(tree) if isinstance(n, ast.Name)}

    def params_of(fn) -> set[str]:
        a = fn.args
        out = {x.arg for x in a.posonlyargs + a.args + a.kwonlyargs}
        if a.vararg:
            out.add(a.vararg.arg)
        if a.kwarg:
            out.add(a.kwarg.arg)
        return out

    def do_function(fn) -> None:
        excl: set[str] = set()
        stores: set[str] = set()
        comp_targets: set[int] = set()
        for n in ast.walk(fn):
            if isinstance(n, (ast.FunctionDef, ast.AsyncFunctionDef, ast.Lambda)):
                excl |= params_of(n)
                if not isinstance(n, ast.Lambda):
                    excl.add(n.name)
            elif isinstance(n, ast.ClassDef):
                excl.add(n.name)
            elif isinstance(n, ast.Global):
                excl |= set(n.names)
            elif isinstance(n, ast.ExceptHandler) and n.name:
                excl.add(n.name)
            elif isinstance(n, (ast.Import, ast.ImportFrom)):
                excl |= {(a.asname or a.name.split(".")[0]) for a in n.names}
            elif isinstance(n, ast.comprehension):
                comp_targets |= {id(t) for t in ast.walk(n.target)}
            elif isinstance(n, (ast.MatchAs, ast.MatchStar)) and n.name:
                excl.add(n.name)
        for n in ast.walk(fn):
            if isinstance(n, ast.Name) and isinstance(n.ctx, ast.Store) and id(n) not in comp_targets:
                stores.add(n.id)
        # new names share nothing with the old ones (no common prefix a rule could match by accident)
        ren = {}
        k = 0
        for v in sorted(stores - excl):
            if v.startswith("__") or v == "_":
                continue
            k += 1
            while f"zq{k}{suffix}" in taken:
                k += 1
            ren[v] = f"zq{k}{suffix}"
        for n in ast.walk(fn):
            if isinstance(n, ast.Name) and n.id in ren:
                n.id = ren[n.id]
            elif isinstance(n, ast.Nonlocal):
                n.names = [ren.get(x, x) for x in n.names]

    def visit(node) -> None:
        for ch in ast.iter_child_nodes(node):
            if isinstance(ch, (ast.FunctionDef, ast.AsyncFunctionDef)):
                do_function(ch)  # nested functions are renamed together with their outermost function
            else:
                visit(ch)

    visit(tree)
    return ast.unparse(tree) + "\n"


def _apply(repo_root, seed: Seed) -> dict[str, str] | None:
    edits = [(seed.file, seed.old, seed.new, seed.count)] + [(*e, 1) if len(e) == 3 else e for e in (seed.edits or [])]
    out: dict[str, str] = {}
    for file, old, new, count in edits:
        p = repo_root / file
        if not p.exists():
            return None
        src = out.get(file) or p.read_text(encoding="utf-8")
        if old is None:  # unparse round trip
            out[file] = ast.unparse(ast.parse(src)) + "\n"
            continue
        if old == RENAME:
            out[file] = alpha_rename(src)
            continue
        if old == INVERT:
            out[file] = invert_if_else(src)
            continue
        if old == NOOP:
            out[file] = insert_noop(src)
            continue
        if src.count(old) != count:
            return None
        out[file] = src.replace(old, new)
    for file, src in out.items():
        try:
            ast.parse(src)
        except SyntaxError as e:  # a seed must still compile
            raise AnalysisError(f"self-test seed {seed.name} does not parse: {e}") from e
    return out


def _identities(prop: str, repo: Repo, tier: str = "quick") -> dict[str, str]:
    mod = importlib.import_module(f"odfsa.rules.{prop.lower()}")
    ctx = Ctx(prop, repo, tier)
    mod.run(ctx)
    return {f.identity: f.rule for f in ctx.findings}


def _one(args):
    prop, root, seed, base = args
    from pathlib import Path
    try:
        ov = _apply(Path(root), seed)
        if ov is None:
            return (seed.name, seed.kind, "skipped", "anchor text not found in current source")
        try:
            ids = _identities(prop, Repo(root, overrides=ov))
        except AnalysisError as e:
            # a broken variant must be *reported* (exit 1), not merely refused (exit 2)
            return (seed.name, seed.kind, "FAILED", f"analysis error on variant: {e}")
        new = {i: r for i, r in ids.items() if i not in base}
        gone = [i for i in base if i not in ids]
        if seed.kind == "fault":
            hit = [i for i, r in new.items() if seed.expect is None or r == seed.expect or r.startswith(seed.expect)]
            if hit:
                return (seed.name, seed.kind, "ok", hit[0])
            return (seed.name, seed.kind, "FAILED", f"expected a new {seed.expect} finding, got {sorted(new)[:3]}")
        if new or gone:
            return (seed.name, seed.kind, "FAILED", f"neutral edit changed findings: new={sorted(new)[:3]} gone={gone[:3]}")
        return (seed.name, seed.kind, "ok", "")
    except AnalysisError:
        raise
    except Exception as e:  # noqa: BLE001
        import traceback
        return (seed.name, seed.kind, "FAILED", f"internal error: {e!r} {traceback.format_exc()[-400:]}")


def run_selftest(prop: str, repo: Repo) -> dict:
    mod = importlib.import_module(f"odfsa.rules.{prop.lower()}")
    seeds: list[Seed] = list(getattr(mod, "SEEDS", []))
    if not seeds:
        raise AnalysisError(f"no self-test seeds for {prop}")
    # every file that is re-laid-out is also alpha-renamed: no rule may depend on how a local is spelled
    files = []
    for s_ in seeds:
        if s_.kind == "neutral" and s_.old is None and s_.file not in files:
            files.append(s_.file)
    have = {(s_.file, s_.old) for s_ in seeds}
    for fl in files:
        for mk, tag in ((rename_seed, RENAME), (invert_seed, INVERT), (noop_seed, NOOP)):
            if (fl, tag) not in have:
                seeds.append(mk(fl))
    base = _identities(prop, repo)
    jobs = [(prop, str(repo.root), s, base) for s in seeds]
    workers = min(16, len(jobs), os.cpu_count() or 4)
    if workers > 1:
        with ProcessPoolExecutor(max_workers=workers) as ex:
            results = list(ex.map(_one, jobs))
    else:
        results = [_one(j) for j in jobs]
    failed = [r for r in results if r[2] == "FAILED"]
    for r in results:
        print(f"  selftest {r[1]:7s} {r[2]:7s} {r[0]}" + (f"  -> {r[3]}" if r[3] else ""))
    ok_fault = sum(1 for r in results if r[1] == "fault" and r[2] == "ok")
    ok_neutral = sum(1 for r in results if r[1] == "neutral" and r[2] == "ok")
    if failed:
        raise AnalysisError(f"self-test failed for {len(failed)} seed(s): " + "; ".join(f"{r[0]}: {r[3]}" for r in failed[:4]))
    if ok_fault == 0:
        raise AnalysisError("self-test: no fault seed could be applied to the current source")
    return {
        "fault_seeds_detected": ok_fault,
        "neutral_seeds_silent": ok_neutral,
        "skipped": [r[0] for r in results if r[2] == "skipped"],
        "results": [{"seed": r[0], "kind": r[1], "result": r[2], "detail": r[3]} for r in results],
    }
