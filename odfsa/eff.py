"""EFF — XML-mutation effect analysis over the whole package.

For every function (under a context of constant flag arguments) a summary:
  muts : {(root atom, site)}  — primitive writes into an XML tree / container part table that belongs to
         'S' (the receiver), 'P:<param>' (an argument).  Writes into fresh objects are dropped.
  ret  : roots and kind of the returned value ('fresh' = deepcopy / clone / constructor / fromstring …)

Values carry a *kind* (LXML, ELEM, LIST, PART, CONT, DOC, PY, UNK) inferred from annotations, literals and
the repository's own idioms, and a *root set* (which object's tree they belong to).  Callees are resolved
through the class tables (self.m → MRO + overriding subclasses; x.m on an element of unknown class → every
element class defining m).  A call on a receiver of unknown kind whose method name also exists on
str/list/dict/set is *unresolved*: counted, never reported.  Python-level caches are not XML effects.
"""

from __future__ import annotations

import ast
from dataclasses import dataclass, field
from typing import Any

from .core import UNKNOWN, AnalysisError, ClassInfo, FuncInfo, Repo, body_no_doc, call_name, is_self_attr, mangle, norm, walk_no_nested
from .registry import _propdef_items

FRESH: frozenset = frozenset()
LXML, ELEM, LIST, PART, CONT, DOC, PY, UNK, XP, ATTRIB, PLIST = "LXML", "ELEM", "LIST", "PART", "CONT", "DOC", "PY", "UNK", "XPATH", "ATTRIB", "PLIST"
TREEISH = {LXML, ELEM, LIST, PART, CONT, DOC, ATTRIB, PLIST}

LXML_MUT_CALLS = {"append", "insert", "remove", "replace", "extend", "clear", "addnext", "addprevious", "set"}
LXML_MUT_ATTRS = {"text", "tail", "tag"}
LXML_NAV = {"getparent", "getnext", "getprevious", "iterchildren", "iterdescendants", "iter", "getroottree", "getroot", "xpath", "find", "findall",
            "iterancestors", "itersiblings", "getchildren"}
AMBIG = {"append", "insert", "remove", "replace", "extend", "clear", "set", "delete", "rstrip", "strip", "pop", "update", "add", "index", "sort",
         "get", "copy", "items", "keys", "values", "split", "join", "format", "count", "find", "lower", "upper", "startswith", "endswith", "encode",
         "decode", "write", "read", "close", "search", "match", "group", "sub", "setdefault"}
FRESH_FUNCS = {"deepcopy", "fromstring", "lxml_Element", "parse", "make_etree_element", "copy"}
PY_FUNCS = {"str", "int", "len", "bool", "float", "repr", "max", "min", "sum", "any", "all", "isinstance", "hasattr", "type", "Decimal", "round", "abs",
            "ord", "chr", "divmod", "format", "bytes", "id", "callable", "issubclass", "tostring", "print", "range", "getattr", "sorted", "dict", "set",
            "frozenset", "tuple", "Path", "search", "compile", "printwarn", "isiterable", "to_str", "to_bytes", "bytes_to_str", "str_to_bytes", "wrap"}
CACHE_ATTRS = {"_indexes", "_tmap", "_cmap", "_rmap", "x", "y", "_do_init", "_family", "table_name", "start", "end", "crange", "usage",
               "_Document__body", "_Document__xmlparts", "_XmlPart__root", "_XmlPart__tree", "container", "part_name"}
CONTAINER_LAZY = {"get_part", "_get_zip_part", "_get_all_zip_part", "_get_folder_part", "_read_zip", "_read_folder", "open", "__init__"}


@dataclass(frozen=True)
class Val:
    kind: str = UNK
    roots: frozenset = FRESH  # atoms 'S', 'P:name', 'U'; empty = fresh / pure value

    def fresh(self) -> bool:
        return not self.roots


PYV = Val(PY, FRESH)
UNKV = Val(UNK, frozenset({"U"}))


def join_val(a: Val | None, b: Val | None) -> Val | None:
    if a is None:
        return b
    if b is None:
        return a
    kind = a.kind if a.kind == b.kind else (a.kind if b.kind in (PY, UNK) and a.kind in TREEISH else (b.kind if a.kind in (PY, UNK) and b.kind in TREEISH else UNK))
    return Val(kind, a.roots | b.roots)


@dataclass
class Site:
    func: FuncInfo
    node: ast.AST
    what: str

    @property
    def key(self):
        return (self.func.module.relpath, self.func.ident, norm(self.node, 80))


@dataclass
class Summary:
    muts: dict = field(default_factory=dict)  # (atom, site.key) -> (Site, chain tuple)
    ret: Val | None = None
    done: bool = False


class Eff:
    def __init__(self, repo: Repo, is_readonly_name=None):
        self.repo = repo
        self.is_readonly_name = is_readonly_name
        self.element = repo.cls("Element")
        self.elem_classes = {id(c) for c in [self.element] + self.element.all_subclasses()}
        self.mixins = {id(c) for c in repo.all_classes() if c.name.startswith("MD") or c.name.endswith(("Mix", "Mixin"))}
        self.part_classes = {id(c) for c in [repo.cls("XmlPart")] + repo.cls("XmlPart").all_subclasses()}
        self.doc_classes = {id(repo.cls("Document"))} | {id(c) for c in repo.cls("Document").mro}
        self.cont_class = repo.cls("Container")
        self.by_name: dict[str, list[FuncInfo]] = {}
        for f in repo.all_funcs():
            if f.kind != "nested":
                self.by_name.setdefault(f.name, []).append(f)
        self.setter_names = {f.name for f in repo.all_funcs() if f.kind == "setter"}
        self.getter_names = {f.name for f in repo.all_funcs() if f.kind == "getter"}
        self.propdef_names: dict[str, str] = {}
        for c in repo.all_classes():
            e = c.consts.get("_properties")
            if e is not None:
                for nm, attr, fam in _propdef_items(repo, c, e):
                    if isinstance(nm, str):
                        self.propdef_names[nm] = attr if isinstance(attr, str) else "?"
        self.summaries: dict[tuple, Summary] = {}
        self.work: list = []
        self.inwork: set = set()
        self.rdeps: dict = {}
        self.unresolved: dict[str, int] = {}
        self.changed = False
        self.rounds = 0
        self._stack: list[tuple] = []
        self.n_calls_resolved = 0

    # ------------------------------------------------------------------ kinds
    def class_kind(self, c: ClassInfo | None) -> str:
        if c is None:
            return UNK
        if id(c) in self.elem_classes or id(c) in self.mixins:
            return ELEM
        if id(c) in self.part_classes:
            return PART
        if c is self.cont_class:
            return CONT
        if id(c) in self.doc_classes:
            return DOC
        return UNK

    def ann_kind(self, a: ast.expr | None, m) -> str:
        if a is None:
            return UNK
        s = ast.unparse(a).replace(" | None", "").replace("None | ", "").strip()
        if s.startswith(("list", "List", "Iterable", "Iterator", "tuple", "Tuple")):
            inner = s[s.find("[") + 1: s.rfind("]")] if "[" in s else ""
            if any(self._name_kind(x, m) in (ELEM, LXML) for x in _idents(inner)):
                return LIST
            return PY
        ks = {self._name_kind(x, m) for x in _idents(s)} - {None}
        for k in (LXML, ELEM, PART, CONT, DOC):
            if k in ks:
                return k
        if ks and ks <= {PY}:
            return PY
        return UNK

    def _name_kind(self, name: str, m) -> str | None:
        if name in ("str", "bytes", "int", "float", "bool", "Decimal", "EText", "datetime", "date", "timedelta", "dict", "set", "Path", "BinaryIO", "BytesIO", "io"):
            return PY
        if name in ("_Element", "_ElementTree"):
            return LXML
        c = self.repo.find_class(name, m)
        if c is not None:
            k = self.class_kind(c)
            return k if k != UNK else None
        return None

    def ret_kind(self, name: str) -> str:
        ks = set()
        for f in self.by_name.get(name, ()):
            if f.kind in ("setter", "deleter"):
                continue
            ks.add(self.ann_kind(f.node.returns, f.module))
        if not ks:
            return UNK
        if len(ks) == 1:
            return next(iter(ks))
        tree = ks & TREEISH
        if len(tree) == 1 and ks <= tree | {UNK, PY}:
            return next(iter(tree))
        if ks <= {PY, UNK} and PY in ks and UNK not in ks:
            return PY
        return UNK

    # ------------------------------------------------------------------ summaries
    def flags_of(self, f: FuncInfo) -> list[str]:
        out = []
        d = f.defaults()
        tested = set()
        for n in walk_no_nested(f.node):
            if isinstance(n, (ast.If, ast.IfExp, ast.While)):
                for x in ast.walk(n.test):
                    if isinstance(x, ast.Name):
                        tested.add(x.id)
        for p, dv in d.items():
            if isinstance(dv, ast.Constant) and (isinstance(dv.value, bool) or dv.value is None) and p in tested:
                out.append(p)
        if f.name == "__init__" and any(is_self_attr(x, "_do_init") for n in walk_no_nested(f.node) if isinstance(n, (ast.If, ast.IfExp)) for x in ast.walk(n.test)):
            out.append("__do_init__")  # pseudo flag: True when a new element is built, False when an existing node is wrapped
        return out

    def summary(self, f: FuncInfo, consts: dict[str, Any] | None = None) -> Summary:
        flags = self.flags_of(f)
        ctx = tuple(sorted((k, v) for k, v in (consts or {}).items() if k in flags))
        key = (id(f.node), ctx)
        s = self.summaries.get(key)
        if s is None:
            s = self.summaries[key] = Summary()
            s.f = f  # type: ignore[attr-defined]
            s.ctx = dict(ctx)  # type: ignore[attr-defined]
            self.work.append(key)
            self.inwork.add(key)
        cur = getattr(self, "_current", None)
        if cur is not None:
            self.rdeps.setdefault(key, set()).add(cur)
        return s

    def solve(self, entries: list[tuple[FuncInfo, dict]]) -> None:
        """Worklist fixpoint: a summary is re-analysed when a summary it used has changed."""
        for f, c in entries:
            self.summary(f, c)
        steps = 0
        while self.work:
            key = self.work.pop()
            self.inwork.discard(key)
            s = self.summaries[key]
            if self._analyse(s, key):
                for dep in self.rdeps.get(key, ()):
                    if dep not in self.inwork:
                        self.inwork.add(dep)
                        self.work.append(dep)
            steps += 1
            if steps > 200000:
                raise AnalysisError("EFF: effect summaries did not converge")
        self.rounds = steps

    def _analyse(self, s: Summary, key=None) -> bool:
        f: FuncInfo = s.f  # type: ignore[attr-defined]
        a = _FuncAnalysis(self, f, s.ctx)  # type: ignore[attr-defined]
        self._current = key
        a.run()
        self._current = None
        changed = False
        for k, v in a.muts.items():
            if k not in s.muts:
                s.muts[k] = v
                changed = True
        r = a.ret
        nr = join_val(s.ret, r) if s.ret is not None else r
        if nr != s.ret:
            s.ret = nr
            changed = True
        s.done = True
        return changed

    # ------------------------------------------------------------------ call resolution
    def resolve_self_method(self, cls: ClassInfo | None, name: str, kind: str | None = None) -> list[FuncInfo]:
        if cls is None:
            return []
        out = []
        f = cls.lookup(name, kind)
        if f is not None:
            out.append(f)
        for sc in cls.all_subclasses():
            for g in sc.methods.get(name, ()):
                if (kind is None and g.kind not in ("setter", "deleter")) or g.kind == kind:
                    if g not in out:
                        out.append(g)
        # mixins: methods used through self that live in a class combined with this one elsewhere
        if not out and (id(cls) in self.mixins):
            for g in self.by_name.get(name, ()):
                if g.cls is not None and ((kind is None and g.kind not in ("setter", "deleter")) or g.kind == kind):
                    out.append(g)
        return out

    def resolve_by_name(self, name: str, recv_kind: str, kind: str | None = None) -> list[FuncInfo]:
        out = []
        for g in self.by_name.get(name, ()):
            if g.cls is None:
                continue
            if not ((kind is None and g.kind not in ("setter", "deleter")) or g.kind == kind):
                continue
            ck = self.class_kind(g.cls)
            if recv_kind == ELEM and ck == ELEM:
                out.append(g)
            elif recv_kind == PART and ck == PART:
                out.append(g)
            elif recv_kind == CONT and ck == CONT:
                out.append(g)
            elif recv_kind == DOC and ck == DOC:
                out.append(g)
        return out


def _idents(s: str) -> list[str]:
    import re
    return re.findall(r"[A-Za-z_][A-Za-z_0-9]*", s)


class _FuncAnalysis:
    def __init__(self, eff: Eff, f: FuncInfo, consts: dict):
        self.e = eff
        self.f = f
        self.consts = consts
        self.env: dict[str, Val] = {}
        self.cenv: dict[str, Any] = dict(consts)  # constant-valued locals (flags)
        self.muts: dict = {}
        self.ret: Val | None = None
        self.selfname = None
        params = f.all_params()
        if f.cls is not None and f.kind in ("method", "getter", "setter", "deleter", "nested") and params and params[0].arg == "self":
            self.selfname = "self"
            self.env["self"] = Val(eff.class_kind(f.cls), frozenset({"S"}))
        elif f.kind == "nested" and f.cls is not None:
            # closures see the enclosing self
            self.env["self"] = Val(eff.class_kind(f.cls), frozenset({"S"}))
            self.selfname = "self"
        for a in params:
            if a.arg == "self" and self.selfname:
                continue
            if a.arg in ("cls",) and f.kind == "class":
                continue
            k = eff.ann_kind(a.annotation, f.module)
            self.env[a.arg] = Val(k, frozenset({f"P:{a.arg}"}) if k in TREEISH or k == UNK else FRESH)
        d = f.defaults()
        for p, dv in d.items():
            if p not in self.cenv and False:
                pass

    # ---------------------------------------------------------------- driver
    def run(self):
        self.block(body_no_doc(self.f.node))

    def block(self, body):
        for s in body:
            if self.stmt(s) is False:
                return False
        return True

    def fork(self):
        return dict(self.env), dict(self.cenv)

    def merge(self, a, b):
        ea, ca = a
        eb, cb = b
        env = {}
        for k in set(ea) | set(eb):
            env[k] = join_val(ea.get(k), eb.get(k))
        self.env = env
        self.cenv = {k: v for k, v in ca.items() if k in cb and cb[k] == v}

    def test(self, t: ast.expr):
        """True/False if decided by constant flags, else None."""
        if isinstance(t, ast.Constant):
            return bool(t.value)
        if is_self_attr(t, "_do_init") and "__do_init__" in self.cenv:
            return bool(self.cenv["__do_init__"])
        if isinstance(t, ast.Name) and t.id in self.cenv:
            return bool(self.cenv[t.id])
        if isinstance(t, ast.UnaryOp) and isinstance(t.op, ast.Not):
            r = self.test(t.operand)
            return None if r is None else not r
        if isinstance(t, ast.Compare) and len(t.ops) == 1 and isinstance(t.left, ast.Name) and t.left.id in self.cenv \
                and isinstance(t.comparators[0], ast.Constant):
            v, c = self.cenv[t.left.id], t.comparators[0].value
            op = t.ops[0]
            if isinstance(op, ast.Is):
                return v is c
            if isinstance(op, ast.IsNot):
                return v is not c
            if isinstance(op, ast.Eq):
                return v == c
            if isinstance(op, ast.NotEq):
                return v != c
        if isinstance(t, ast.BoolOp):
            rs = [self.test(x) for x in t.values]
            if isinstance(t.op, ast.And):
                if any(r is False for r in rs):
                    return False
                return True if all(r is True for r in rs) else None
            if any(r is True for r in rs):
                return True
            return False if all(r is False for r in rs) else None
        return None

    def stmt(self, s):
        if isinstance(s, ast.If):
            self.ev(s.test)
            r = self.test(s.test)
            if r is True:
                return self.block(s.body)
            if r is False:
                return self.block(s.orelse)
            pre = self.fork()
            a_live = self.block(s.body)
            a = self.fork()
            self.env, self.cenv = dict(pre[0]), dict(pre[1])
            b_live = self.block(s.orelse)
            b = self.fork()
            if a_live is False and b_live is False:
                return False
            if a_live is False:
                self.env, self.cenv = b
            elif b_live is False:
                self.env, self.cenv = a
            else:
                self.merge(a, b)
            return True
        if isinstance(s, (ast.For, ast.AsyncFor)):
            it = self.ev(s.iter)
            pre = self.fork()
            for _ in range(2):
                self.bind(s.target, self.elem_of(it, s.iter))
                self.block(s.body)
                self.merge(pre, self.fork())
                pre = self.fork()
            self.block(s.orelse)
            return True
        if isinstance(s, ast.While):
            self.ev(s.test)
            pre = self.fork()
            for _ in range(2):
                self.block(s.body)
                self.merge(pre, self.fork())
                pre = self.fork()
            return True
        if isinstance(s, (ast.With, ast.AsyncWith)):
            for it in s.items:
                v = self.ev(it.context_expr)
                if it.optional_vars is not None:
                    self.bind(it.optional_vars, v)
            self.block(s.body)
            return True
        if isinstance(s, ast.Try):
            pre = self.fork()
            self.block(s.body)
            self.block(s.orelse)
            states = [self.fork()]
            for h in s.handlers:
                self.env, self.cenv = dict(pre[0]), dict(pre[1])
                self.merge(pre, states[0])
                if self.block(h.body) is not False:
                    states.append(self.fork())
            st = states[0]
            for o in states[1:]:
                self.merge(st, o)
                st = self.fork()
            self.env, self.cenv = st
            self.block(s.finalbody)
            return True
        if isinstance(s, ast.Return):
            if s.value is not None:
                v = self.ev(s.value)
                self.ret = join_val(self.ret, v) if self.ret is not None else v
            else:
                self.ret = join_val(self.ret, PYV) if self.ret is not None else PYV
            return False
        if isinstance(s, ast.Raise):
            if s.exc is not None:
                self.ev(s.exc)
            return False
        if isinstance(s, ast.Assign):
            v = self.ev(s.value)
            for t in s.targets:
                self.assign(t, v, s.value, s)
            return True
        if isinstance(s, ast.AnnAssign):
            if s.value is not None:
                v = self.ev(s.value)
                self.assign(s.target, v, s.value, s)
            return True
        if isinstance(s, ast.AugAssign):
            v = self.ev(s.value)
            if isinstance(s.target, ast.Attribute):
                self.assign(s.target, v, s.value, s)
            elif isinstance(s.target, ast.Name):
                old = self.env.get(s.target.id)
                self.env[s.target.id] = join_val(old, v) if old else v
            return True
        if isinstance(s, ast.Expr):
            if isinstance(s.value, (ast.Yield, ast.YieldFrom)):
                v = self.ev(s.value.value) if s.value.value is not None else PYV
                if isinstance(s.value, ast.Yield):
                    v = Val(LIST if v.kind in (ELEM, LXML) else v.kind, v.roots)
                self.ret = join_val(self.ret, v) if self.ret is not None else v
            else:
                self.ev(s.value)
            return True
        if isinstance(s, ast.Delete):
            for t in s.targets:
                if isinstance(t, ast.Subscript):
                    base = self.ev(t.value)
                    if base.kind in (ATTRIB, LXML):
                        self.mutate(base, s, f"del {norm(t, 40)}")
                    elif isinstance(t.value, ast.Attribute) and t.value.attr.endswith("__parts"):
                        self.mutate(self.ev(t.value.value), s, "del container part")
            return True
        if isinstance(s, (ast.FunctionDef, ast.AsyncFunctionDef)):
            return True
        return True

    def bind(self, target, v: Val):
        if isinstance(target, ast.Name):
            self.env[target.id] = v
            self.cenv.pop(target.id, None)
        elif isinstance(target, (ast.Tuple, ast.List)) and v.kind == PART:
            for e in target.elts:
                self.bind(e, v)
        elif isinstance(target, (ast.Tuple, ast.List)):
            for e in target.elts:
                self.bind(e, Val(UNK if v.kind not in (LIST, LXML) else (ELEM if v.kind == LIST else LXML), v.roots) if v.kind in TREEISH | {UNK} else PYV)
        elif isinstance(target, ast.Starred):
            self.bind(target.value, v)

    def elem_of(self, it: Val, iter_expr=None) -> Val:
        if it.kind == PLIST:
            return Val(PART, it.roots)
        if it.kind == LIST:
            return Val(ELEM, it.roots)
        if it.kind == LXML:
            return Val(LXML, it.roots)
        if it.kind in (ELEM,):
            return Val(ELEM, it.roots)
        if it.kind == PY:
            return PYV
        return Val(UNK, it.roots)

    # ---------------------------------------------------------------- assignment
    def assign(self, t, v: Val, vexpr, stmt):
        if isinstance(t, ast.Name):
            self.env[t.id] = v
            if isinstance(vexpr, ast.Constant) and (isinstance(vexpr.value, bool) or vexpr.value is None):
                self.cenv[t.id] = vexpr.value
            else:
                self.cenv.pop(t.id, None)
            return
        if isinstance(t, (ast.Tuple, ast.List)):
            self.bind(t, v)
            return
        if isinstance(t, ast.Attribute):
            base = self.ev(t.value)
            attr = mangle(self.f.cls.name, t.attr) if (self.f.cls is not None and t.attr.startswith("__")) else t.attr
            if base.kind == LXML:
                if attr in LXML_MUT_ATTRS:
                    self.mutate(base, stmt, f".{attr} = …")
                return
            if base.kind in (ELEM, UNK, PART, DOC, CONT) or base.kind == LIST:
                if attr in CACHE_ATTRS or attr.startswith("_") and attr not in self.e.setter_names:
                    if attr.endswith("__parts"):
                        self.mutate(base, stmt, "container part table replaced")
                    return
                # property setter?
                targets = []
                if is_self_attr(t) and self.f.cls is not None:
                    targets = self.e.resolve_self_method(self.f.cls, t.attr, "setter")
                elif base.kind in (ELEM, PART, DOC, CONT):
                    targets = self.e.resolve_by_name(t.attr, base.kind, "setter")
                if targets:
                    self.apply_callees(targets, base, [v], {}, stmt, f".{t.attr} = …")
                    return
                if t.attr in self.e.propdef_names and base.kind in (ELEM, UNK):
                    if base.kind == ELEM:
                        self.mutate(base, stmt, f".{t.attr} = … (attribute property {self.e.propdef_names[t.attr]})")
                    return
            return
        if isinstance(t, ast.Subscript):
            base = self.ev(t.value)
            if base.kind in (ATTRIB,):
                self.mutate(base, stmt, f"{norm(t, 40)} = …")
            elif base.kind == LXML:
                self.mutate(base, stmt, f"{norm(t, 40)} = …")
            elif isinstance(t.value, ast.Attribute) and t.value.attr.endswith("__parts"):
                owner = self.ev(t.value.value)
                if self.f.name not in CONTAINER_LAZY:
                    self.mutate(owner, stmt, "container part written")
            elif isinstance(t.value, ast.Name) and base.kind in (PY, LIST, UNK) and v.roots and v.kind in (ELEM, LXML, LIST, UNK):
                # a local collection (dict / list) that is handed tree values keeps them: `todo[key] = container`
                self.env[t.value.id] = Val(LIST, base.roots | v.roots)
            return

    # ---------------------------------------------------------------- effects
    def mutate(self, target: Val, node, what: str, chain: tuple = ()):
        for atom in target.roots:
            if atom == "U":
                continue
            site = Site(self.f, node, what)
            k = (atom, site.key)
            if k not in self.muts:
                self.muts[k] = (site, chain)

    def apply_callees(self, callees: list[FuncInfo], recv: Val | None, args: list[Val], kwargs: dict[str, Val], node, label: str,
                      const_args: dict[int | str, Any] | None = None) -> Val | None:
        ret: Val | None = None
        for g in callees:
            consts = {}
            gparams = [a.arg for a in g.node.args.posonlyargs + g.node.args.args]
            off = 1 if (gparams and gparams[0] in ("self", "cls") and g.cls is not None and g.kind != "static") else 0
            names = gparams[off:]
            flags = self.e.flags_of(g)
            d = g.defaults()
            for p in flags:
                if isinstance(d.get(p), ast.Constant):
                    consts[p] = d[p].value
            if "__do_init__" in flags and "__do_init__" in self.cenv and self.f.name == "__init__":
                consts["__do_init__"] = self.cenv["__do_init__"]
            for k, c in (const_args or {}).items():
                if isinstance(k, int):
                    if k < len(names) and names[k] in flags:
                        consts[names[k]] = c
                elif k in flags:
                    consts[k] = c
            # flags passed as non-constants become unknown
            for i, a in enumerate(args):
                if i < len(names) and names[i] in consts and (const_args is None or i not in const_args):
                    consts.pop(names[i], None)
            for k in kwargs:
                if k in consts and (const_args is None or k not in const_args):
                    consts.pop(k, None)
            s = self.e.summary(g, consts)
            self.e.n_calls_resolved += 1
            argmap: dict[str, Val] = {}
            for i, a in enumerate(args):
                if i < len(names):
                    argmap[names[i]] = a
            for k, a in kwargs.items():
                argmap[k] = a
            for (atom, skey), (site, chain) in list(s.muts.items()):
                tgt: Val | None = None
                if atom == "S":
                    tgt = recv
                elif atom.startswith("P:"):
                    tgt = argmap.get(atom[2:])
                if tgt is None:
                    continue
                for a2 in tgt.roots:
                    if a2 == "U":
                        continue
                    k2 = (a2, skey)
                    if k2 not in self.muts:
                        here = (self.f, node, label)
                        # culprit: the outermost call into a function that is not itself a read-only operation
                        if self.e.is_readonly_name is not None and not self.e.is_readonly_name(g):
                            culprit = here
                        else:
                            culprit = chain[-1] if chain and len(chain) > 7 else None
                            culprit = getattr(site, "culprit", None) if culprit is None else culprit
                        ns = Site(site.func, site.node, site.what)
                        ns.culprit = culprit if culprit is not None else getattr(site, "culprit", None)  # type: ignore[attr-defined]
                        self.muts[k2] = (ns, (here,) + chain[:6])
            if s.ret is not None:
                rv = s.ret
                roots = set()
                for atom in rv.roots:
                    if atom == "S" and recv is not None:
                        roots |= recv.roots
                    elif atom.startswith("P:") and atom[2:] in argmap:
                        roots |= argmap[atom[2:]].roots
                    elif atom == "U":
                        roots.add("U")
                ret = join_val(ret, Val(rv.kind, frozenset(roots))) if ret is not None else Val(rv.kind, frozenset(roots))
        return ret

    # ---------------------------------------------------------------- expressions
    def ev(self, e) -> Val:
        if e is None:
            return PYV
        if isinstance(e, ast.Name):
            return self.env.get(e.id, self._global(e.id))
        if isinstance(e, (ast.Constant, ast.JoinedStr)):
            if isinstance(e, ast.JoinedStr):
                for v in e.values:
                    if isinstance(v, ast.FormattedValue):
                        self.ev(v.value)
            return PYV
        if isinstance(e, ast.Attribute):
            return self.attr(e)
        if isinstance(e, ast.Call):
            return self.call(e)
        if isinstance(e, ast.Subscript):
            base = self.ev(e.value)
            if not isinstance(e.slice, ast.Slice):
                self.ev(e.slice)
            if base.kind == PLIST:
                return Val(PART, base.roots)
            if base.kind == LIST:
                return Val(LIST if isinstance(e.slice, ast.Slice) else ELEM, base.roots)
            if base.kind == LXML:
                return Val(LXML, base.roots)
            if base.kind == PY:
                return PYV
            return Val(UNK, base.roots)
        if isinstance(e, (ast.List, ast.Tuple, ast.Set)):
            vals = [self.ev(x) for x in e.elts]
            roots = frozenset().union(*[v.roots for v in vals]) if vals else FRESH
            if any(v.kind in (ELEM, LXML, UNK) and v.roots for v in vals):
                return Val(LIST, roots)
            return PYV
        if isinstance(e, (ast.ListComp, ast.GeneratorExp, ast.SetComp, ast.DictComp)):
            saved = self.fork()
            for g in e.generators:
                it = self.ev(g.iter)
                self.bind(g.target, self.elem_of(it, g.iter))
                for c in g.ifs:
                    self.ev(c)
            if isinstance(e, ast.DictComp):
                self.ev(e.key)
                v = self.ev(e.value)
                res = PYV
            else:
                v = self.ev(e.elt)
                res = Val(LIST, v.roots) if v.kind in (ELEM, LXML, UNK, LIST) and v.roots else PYV
            env_after = self.env
            self.env, self.cenv = saved
            return res
        if isinstance(e, ast.BoolOp):
            vals = [self.ev(v) for v in e.values]
            out = None
            for v in vals:
                out = join_val(out, v)
            return out or PYV
        if isinstance(e, ast.IfExp):
            self.ev(e.test)
            r = self.test(e.test)
            if r is True:
                return self.ev(e.body)
            if r is False:
                return self.ev(e.orelse)
            return join_val(self.ev(e.body), self.ev(e.orelse)) or PYV
        if isinstance(e, (ast.BinOp,)):
            a, b = self.ev(e.left), self.ev(e.right)
            if a.kind == LIST or b.kind == LIST:
                return Val(LIST, a.roots | b.roots)
            return PYV
        if isinstance(e, (ast.Compare, ast.UnaryOp)):
            for x in ast.iter_child_nodes(e):
                if isinstance(x, ast.expr):
                    self.ev(x)
            return PYV
        if isinstance(e, ast.NamedExpr):
            v = self.ev(e.value)
            self.bind(e.target, v)
            return v
        if isinstance(e, ast.Dict):
            for v in e.values:
                self.ev(v)
            return PYV
        if isinstance(e, ast.Starred):
            return self.ev(e.value)
        if isinstance(e, (ast.Yield, ast.YieldFrom)):
            v = self.ev(e.value) if e.value is not None else PYV
            self.ret = join_val(self.ret, Val(LIST if v.kind in (ELEM, LXML) else v.kind, v.roots)) if self.ret is not None else v
            return PYV
        if isinstance(e, ast.Lambda):
            return PYV
        return PYV

    def _global(self, name: str) -> Val:
        r = self.e.repo.resolve_name(name, self.f.module)
        if isinstance(r, tuple) and r[0] == "const":
            v = r[1]
            if isinstance(v, ast.Call) and call_name(v) in ("xpath_compile", "XPath"):
                return Val(XP, FRESH)
            return PYV
        if isinstance(r, (ClassInfo, FuncInfo)):
            return PYV
        return Val(UNK, FRESH) if r is None else PYV

    def attr(self, e: ast.Attribute) -> Val:
        base = self.ev(e.value)
        a = e.attr
        if a in ("_Element__element", "__element"):
            return Val(LXML, base.roots)
        if a == "clone" and base.kind in (ELEM, PART, CONT, DOC, UNK, LIST):
            # clone getters may still have effects on the original (Container.clone pre-loads: not a content change)
            return Val(base.kind if base.kind != UNK else ELEM, FRESH)
        if base.kind == LXML:
            if a == "attrib":
                return Val(ATTRIB, base.roots)
            if a in ("text", "tail", "tag", "prefix", "nsmap", "sourceline"):
                return PYV
            return Val(UNK, base.roots)
        if base.kind == PY:
            return PYV
        if base.kind in (ELEM, PART, DOC, CONT, LIST, UNK):
            mang = mangle(self.f.cls.name, a) if (self.f.cls is not None and a.startswith("__")) else a
            if mang.endswith("__parts"):
                return Val(PY, base.roots)  # the part table: dict; writes are caught at the subscript store
            if mang in ("_Document__xmlparts",):
                return Val(PLIST, base.roots)  # the cache of parsed parts: parts of this document
            if mang in ("_XmlPart__root", "_Document__body"):
                return Val(ELEM, base.roots)
            if mang in ("_XmlPart__tree",):
                return Val(LXML, base.roots)
            if a in CACHE_ATTRS and a not in ("container",):
                return PYV
            # property getter: call it (effects!) and type the result
            getters: list[FuncInfo] = []
            if isinstance(e.value, ast.Name) and e.value.id == "self" and self.f.cls is not None:
                getters = self.e.resolve_self_method(self.f.cls, a, "getter")
            elif base.kind in (ELEM, PART, DOC, CONT):
                getters = self.e.resolve_by_name(a, base.kind, "getter")
            if getters:
                rv = self.apply_callees(getters, base, [], {}, e, f".{a}")
                k = self.e.ret_kind(a)
                if rv is not None and rv.kind in TREEISH:
                    return rv
                # rv None: callee summaries not computed yet (bottom) — stay optimistic, the dependency re-runs us
                if k in TREEISH:
                    return Val(k, rv.roots if rv is not None else FRESH)
                if k == PY:
                    return PYV
                return Val(UNK, rv.roots if rv is not None else FRESH)
            if a == "container":
                return Val(CONT, base.roots)
            if a in self.e.propdef_names:
                return PYV
            return Val(UNK, base.roots) if base.kind != LIST else PYV
        return Val(UNK, base.roots)

    def call(self, c: ast.Call) -> Val:
        fn = c.func
        args = [self.ev(a) for a in c.args]
        kwargs = {k.arg: self.ev(k.value) for k in c.keywords if k.arg}
        const_args: dict = {}
        for i, a in enumerate(c.args):
            if isinstance(a, ast.Constant) and (isinstance(a.value, bool) or a.value is None):
                const_args[i] = a.value
            elif isinstance(a, ast.Name) and a.id in self.cenv:
                const_args[i] = self.cenv[a.id]
        for k in c.keywords:
            if k.arg and isinstance(k.value, ast.Constant) and (isinstance(k.value.value, bool) or k.value.value is None):
                const_args[k.arg] = k.value.value
            elif k.arg and isinstance(k.value, ast.Name) and k.value.id in self.cenv:
                const_args[k.arg] = self.cenv[k.value.id]
        repo = self.e.repo
        if isinstance(fn, ast.Name):
            name = fn.id
            if name in FRESH_FUNCS:
                k = args[0].kind if args and args[0].kind in TREEISH else LXML
                return Val(k, FRESH)
            if name in PY_FUNCS:
                return PYV
            if name in ("list", "reversed", "iter", "enumerate", "tuple", "sorted", "zip", "zip_longest", "filter", "next", "chain"):
                out = None
                for a in args:
                    out = join_val(out, a)
                if out is None:
                    return PYV
                if name == "next":
                    return self.elem_of(out)
                return out
            if name in ("xpath_compile", "XPath", "ETXPath"):
                return Val(XP, FRESH)
            if name in self.env:
                v = self.env[name]
                if v.kind == XP and args:
                    return Val(LXML, args[0].roots)  # compiled XPath applied to a node: nodes of that tree
                # a local callable applied to tree values: the result may belong to those trees
                roots = frozenset().union(*[a.roots for a in args]) if args else FRESH
                if roots:
                    return Val(LXML if any(a.kind == LXML for a in args) else UNK, roots)
                return PYV
            r = repo.resolve_name(name, self.f.module)
            if isinstance(r, ClassInfo):
                init = r.lookup("__init__")
                k = self.e.class_kind(r)
                if init is not None and init.cls is not None and k in (PART, DOC):
                    # XmlPart(path, container) wraps the container: its tree is the container's part
                    roots = frozenset().union(*[a.roots for a in args]) if args else FRESH
                    return Val(k, roots)
                if init is not None:
                    self.apply_callees([init], Val(k, FRESH), args, kwargs, c, f"{name}(…)", const_args)
                return Val(k if k != UNK else PY, FRESH)
            if isinstance(r, FuncInfo):
                rv = self.apply_callees([r], None, args, kwargs, c, f"{name}(…)", const_args)
                k = self.e.ann_kind(r.node.returns, r.module)
                if rv is not None and (rv.kind in TREEISH or k == UNK):
                    return rv if rv.kind != UNK or k == UNK else Val(k, rv.roots)
                return Val(k, rv.roots if rv is not None and k in TREEISH else FRESH) if k != UNK else (rv or UNKV)
            if isinstance(r, tuple) and r[0] == "const":
                v = r[1]
                if isinstance(v, ast.Call) and call_name(v) in ("xpath_compile", "XPath") and args:
                    return Val(LXML, args[0].roots)
            # nested function in the enclosing function
            for g in self.f.module.all_funcs:
                if g.kind == "nested" and g.name == name and g.qualname.startswith(self.f.qualname.split(".<locals>")[0]):
                    rv = self.apply_callees([g], self.env.get("self"), args, kwargs, c, f"{name}(…)", const_args)
                    return rv or UNKV
            return UNKV if any(a.roots for a in args) else PYV
        if not isinstance(fn, ast.Attribute):
            return UNKV
        m = fn.attr
        # super().m(...)
        if isinstance(fn.value, ast.Call) and call_name(fn.value) == "super" and self.f.cls is not None:
            targets = []
            for bc in self.f.cls.mro[1:]:
                g = bc.methods.get(m)
                if g:
                    targets = [x for x in g if x.kind not in ("setter", "deleter")][:1]
                    break
            rv = self.apply_callees(targets, self.env.get("self"), args, kwargs, c, f"super().{m}(…)", const_args)
            return rv or PYV
        # Class.m(...)  /  Class.prop.fget(self)
        if isinstance(fn.value, ast.Name) and fn.value.id not in self.env:
            r = repo.resolve_name(fn.value.id, self.f.module)
            if isinstance(r, ClassInfo):
                g = r.lookup(m)
                if m == "from_tag" and args:
                    a0 = args[0]
                    if a0.kind == LXML:
                        return Val(ELEM, a0.roots)
                    return Val(ELEM, FRESH)
                if m == "from_tag_for_clone" and args:
                    return Val(ELEM, args[0].roots)
                if g is not None:
                    if g.kind in ("static", "class"):
                        rv = self.apply_callees([g], None, args, kwargs, c, f"{fn.value.id}.{m}(…)", const_args)
                    else:
                        rv = self.apply_callees([g], args[0] if args else None, args[1:], kwargs, c, f"{fn.value.id}.{m}(…)", const_args)
                    k = self.e.ann_kind(g.node.returns, g.module)
                    if rv is not None and rv.kind in TREEISH:
                        return rv
                    return Val(k, rv.roots if rv is not None else FRESH) if k in TREEISH else (PYV if k == PY else (rv or UNKV))
                return PYV
            if r is None or isinstance(r, (tuple,)) or (hasattr(r, "name") and not isinstance(r, ClassInfo)):
                # module (re, os, csv, …) or constant
                if isinstance(r, tuple) and r[0] == "const":
                    v = r[1]
                    if isinstance(v, ast.Call) and call_name(v) in ("xpath_compile", "XPath") and args:
                        return Val(LXML, args[0].roots)
                return PYV
        # Element.clone.fget(self)
        if m == "fget" and isinstance(fn.value, ast.Attribute) and fn.value.attr == "clone":
            return Val(ELEM, FRESH)
        recv = self.ev(fn.value)
        if recv.kind == XP and False:
            pass
        if recv.kind == LXML:
            if m in LXML_MUT_CALLS:
                self.mutate(recv, c, f".{m}(…) on an lxml node")
                # lxml moves a node that already has a parent: attaching a live node somewhere else removes it from the tree it was in
                if m in ("append", "insert", "extend", "addnext", "addprevious", "replace") and args:
                    moved = args[-1]
                    if moved.roots and moved.kind in (LXML, ELEM, LIST):
                        self.mutate(moved, c, f".{m}(…) moves a live node out of its tree")
                return PYV
            if m in LXML_NAV:
                return Val(LXML, recv.roots)
            if m in ("get", "index", "keys", "items", "values"):
                return PYV
            return Val(UNK, recv.roots)
        if recv.kind == ATTRIB:
            if m in ("pop", "clear", "update", "setdefault"):
                self.mutate(recv, c, f"attrib.{m}(…)")
            return PYV
        if recv.kind == PLIST:
            if m in ("items", "values"):
                return recv
            if m in ("get", "pop", "setdefault"):
                return Val(PART, recv.roots)
            return PYV
        if recv.kind == PY:
            if m in ("append", "extend", "insert", "add") and isinstance(fn.value, ast.Name) and args and args[-1].roots \
                    and args[-1].kind in (ELEM, LXML, LIST, UNK):
                self.env[fn.value.id] = Val(LIST, recv.roots | args[-1].roots)
            return PYV
        if recv.kind == XP:
            return PYV
        if recv.kind == LIST:
            if m in ("values", "items", "copy"):
                return recv  # the members of a local collection of tree values
            if m in ("append", "extend", "insert", "add") and isinstance(fn.value, ast.Name) and args:
                a = args[-1]
                if a.roots:
                    self.env[fn.value.id] = Val(LIST, recv.roots | a.roots)
                return PYV
            if m == "pop":
                return Val(ELEM, recv.roots)
            return PYV
        targets: list[FuncInfo] = []
        if isinstance(fn.value, ast.Name) and fn.value.id == "self" and self.f.cls is not None:
            targets = self.e.resolve_self_method(self.f.cls, m)
        elif recv.kind in (ELEM, PART, CONT, DOC):
            targets = self.e.resolve_by_name(m, recv.kind)
        if not targets:
            if recv.kind == UNK:
                if m in AMBIG or m not in self.e.by_name:
                    if recv.roots - {"U"} and m in self.e.by_name:
                        self.e.unresolved[f"{self.f.ident}:{m}"] = self.e.unresolved.get(f"{self.f.ident}:{m}", 0) + 1
                    if m in ("append", "extend", "insert", "add") and isinstance(fn.value, ast.Name) and args and args[-1].roots:
                        self.env[fn.value.id] = Val(LIST, recv.roots | args[-1].roots)
                    return Val(UNK, recv.roots) if m not in AMBIG else PYV
                # unknown receiver, unambiguous package method name: resolve by name over all classes
                targets = [g for g in self.e.by_name.get(m, ()) if g.cls is not None and g.kind not in ("setter", "deleter")]
            else:
                return PYV
        rv = self.apply_callees(targets, recv, args, kwargs, c, f".{m}(…)", const_args)
        k = self.e.ret_kind(m)
        if rv is not None and rv.kind in TREEISH:
            return rv
        if k in TREEISH:
            roots = rv.roots if rv is not None else FRESH
            return Val(k, roots)
        if k == PY:
            return PYV
        return Val(UNK, rv.roots if rv is not None else FRESH)
