"""Driver: ./check <id> [--tier quick|thorough] [--replay path]

exit 0: property's decided clauses hold on the current tree (KNOWN-FINDING lines possible)
exit 1: VIOLATION line printed
exit 2: ANALYSIS-ERROR (parse failure, vanished anchor, floor not met, self-test failure, internal error)
"""

from __future__ import annotations

import argparse
import importlib
import json
import os
import sys
import time
import traceback
from pathlib import Path

sys.path.insert(0, str(Path(__file__).resolve().parent.parent))
sys.dont_write_bytecode = True

from odfsa.core import AnalysisError, Repo  # noqa: E402
from odfsa.report import Ctx, finish  # noqa: E402


def load_rules(prop: str):
    try:
        return importlib.import_module(f"odfsa.rules.{prop.lower()}")
    except ModuleNotFoundError as e:
        raise AnalysisError(f"no rule module for property {prop}") from e


def run_rules(prop: str, repo: Repo, tier: str) -> Ctx:
    mod = load_rules(prop)
    ctx = Ctx(prop, repo, tier)
    mod.run(ctx)
    return ctx


def main(argv=None) -> int:
    ap = argparse.ArgumentParser()
    ap.add_argument("prop")
    ap.add_argument("--tier", default=os.environ.get("VERIF_TIER", "quick"), choices=["quick", "thorough"])
    ap.add_argument("--replay", default=None)
    ap.add_argument("--repo", default=None, help="analyse another checkout (self-tests); evidence not written")
    ap.add_argument("--no-evidence", action="store_true")
    args = ap.parse_args(argv)
    prop = args.prop.upper()
    t0 = time.time()
    try:
        repo = Repo(args.repo)
        mod = load_rules(prop)
        # A rule that loses its footing (AnalysisError: the code no longer has the shape it reads) must not hide what the other rules of the property can
        # still decide: the failing rule function is stubbed out and the property is evaluated again (at most 4 times).  Definite violations found that way
        # stand (exit 1, with an ANALYSIS-INCOMPLETE line); with none, the run is analysis-broken (exit 2) — never a silent pass.
        import re as _re
        first_error = None
        stubbed = []
        for _attempt in range(5):
            ctx = Ctx(prop, repo, args.tier)
            try:
                mod.run(ctx)
                break
            except Exception as e:  # noqa: BLE001
                if not isinstance(e, AnalysisError) and first_error is None:
                    raise
                if first_error is None:
                    first_error = e
                tb = e.__traceback__
                names = []
                while tb is not None:
                    fn = tb.tb_frame.f_code.co_name
                    if _re.match(r"^_?r\d\d", fn) and tb.tb_frame.f_globals.get("__name__", "").startswith("odfsa.rules") and hasattr(mod, fn):
                        names.append(fn)
                    tb = tb.tb_next
                if not names or _attempt == 4:
                    break
                stubbed.append(names[0])
                setattr(mod, names[0], lambda *a, **k: None)
        if first_error is not None:
            if not [f for f in ctx.findings if not getattr(f, "info", False)]:
                raise first_error
            ctx.note(f"analysis stopped early: {first_error}")
            ctx.incomplete = True  # floors of the rules that did not run to the end are not enforced: the violations found stand
            print(f"ANALYSIS-INCOMPLETE property={prop}: {first_error} (rule(s) {stubbed} could not be evaluated; violations found by the others are reported)")
        if args.replay:
            want = json.loads(Path(args.replay).read_text())
            hits = [f for f in ctx.findings if f.identity == want.get("identity")]
            if hits:
                for f in hits:
                    print(f"{f.file}:{f.line}: {f.rule}: in {f.func}: {f.message}")
                print(f"VIOLATION property={prop} replay={args.replay}")
                return 1
            print(f"replay: {want.get('identity')} is not reported on the current tree")
            return 0
        selftest = None
        if args.tier == "thorough":
            from odfsa.selftest import run_selftest
            selftest = run_selftest(prop, repo)
        write = not (args.repo or args.no_evidence)
        return finish(ctx, t0, mod.EXPLANATION, mod.ASSUMPTIONS, write=write, selftest=selftest)
    except AnalysisError as e:
        print(f"ANALYSIS-ERROR property={prop}: {e}")
        return 2
    except Exception:  # noqa: BLE001
        traceback.print_exc()
        print(f"ANALYSIS-ERROR property={prop}: internal error (traceback above)")
        return 2


if __name__ == "__main__":
    sys.exit(main())
