"""Driver: ./check <id> [--tier quick|thorough] [--replay path]

exit 0: property's decided clauses hold on the current tree (KNOWN-FINDING lines possible)
exit 1: VIOLATION line printed
exit 2: ANALYSIS-ERROR (parse failure, vanished anchor, floor not met, self-test failure, internal error)
"""

from __future__ import annotations

import argparse
import importlib
import json
import os
import sys
import time
import traceback
from pathlib import Path

sys.path.insert(0, str(Path(__file__).resolve().parent.parent))
sys.dont_write_bytecode = True

from odfsa.core import AnalysisError, Repo  # noqa: E402
from odfsa.report import Ctx, finish  # noqa: E402


def load_rules(prop: str):
    try:
        return importlib.import_module(f"odfsa.rules.{prop.lower()}")
    except ModuleNotFoundError as e:
        raise AnalysisError(f"no rule module for property {prop}") from e


def run_rules(prop: str, repo: Repo, tier: str) -> Ctx:
    mod = load_rules(prop)
    ctx = Ctx(prop, repo, tier)
    mod.run(ctx)
    return ctx


def main(argv=None) -> int:
    ap = argparse.ArgumentParser()
    ap.add_argument("prop")
    ap.add_argument("--tier", default=os.environ.get("VERIF_TIER", "quick"), choices=["quick", "thorough"])
    ap.add_argument("--replay", default=None)
    ap.add_argument("--repo", default=None, help="analyse another checkout (self-tests); evidence not written")
    ap.add_argument("--no-evidence", action="store_true")
    args = ap.parse_args(argv)
    prop = args.prop.upper()
    t0 = time.time()
    try:
        repo = Repo(args.repo)
        mod = load_rules(prop)
        ctx = Ctx(prop, repo, args.tier)
        try:
            mod.run(ctx)
        except AnalysisError as e:
            # a rule lost its footing after definite violations had been reported: the violations stand (exit 1); without any, the run is analysis-broken (exit 2)
            if not [f for f in ctx.findings if not getattr(f, "info", False)]:
                raise
            ctx.note(f"analysis stopped early: {e}")
            ctx.incomplete = True  # floors of the rules that did not run to the end are not enforced: the violations found stand
            print(f"ANALYSIS-INCOMPLETE property={prop}: {e} (violations found before that are reported)")
        if args.replay:
            want = json.loads(Path(args.replay).read_text())
            hits = [f for f in ctx.findings if f.identity == want.get("identity")]
            if hits:
                for f in hits:
                    print(f"{f.file}:{f.line}: {f.rule}: in {f.func}: {f.message}")
                print(f"VIOLATION property={prop} replay={args.replay}")
                return 1
            print(f"replay: {want.get('identity')} is not reported on the current tree")
            return 0
        selftest = None
        if args.tier == "thorough":
            from odfsa.selftest import run_selftest
            selftest = run_selftest(prop, repo)
        write = not (args.repo or args.no_evidence)
        return finish(ctx, t0, mod.EXPLANATION, mod.ASSUMPTIONS, write=write, selftest=selftest)
    except AnalysisError as e:
        print(f"ANALYSIS-ERROR property={prop}: {e}")
        return 2
    except Exception:  # noqa: BLE001
        traceback.print_exc()
        print(f"ANALYSIS-ERROR property={prop}: internal error (traceback above)")
        return 2


if __name__ == "__main__":
    sys.exit(main())
