"""Rename-invariant structural matching of small code shapes.

A pattern is Python source in which identifiers made of capitals followed by an
underscore (`X_`, `ROW_`, `MAP_`) are metavariables: each matches any expression,
consistently (two occurrences must match structurally equal expressions).  Everything
else — operators, constants, attribute and builtin names — must match literally.  So

    find(fn, "ord(C_) - ord('a') + 1")

matches `ord(c) - ord("a") + 1` whatever the loop variable is called, in any layout,
and does not match `ord(c) - ord("a")`.  Statement patterns work the same way:

    find(fn, "X_ += 1")          find(fn, "if D_ > 0:\\n    self.append_column(A_)")
"""

from __future__ import annotations

import ast
import re

_META = re.compile(r"^[A-Z][A-Z0-9]*_$")


def _is_meta(n: ast.AST) -> str | None:
    if isinstance(n, ast.Name) and _META.match(n.id):
        return n.id
    return None


def _eq(a, b) -> bool:
    try:
        return ast.unparse(a) == ast.unparse(b)  # ignores Load/Store context and layout
    except Exception:  # noqa: BLE001
        return ast.dump(a) == ast.dump(b)


def match(pattern: ast.AST, node: ast.AST, env: dict | None = None) -> dict | None:
    """Match `node` against `pattern`; returns the metavariable bindings or None."""
    env = {} if env is None else env
    m = _is_meta(pattern)
    if m is not None:
        if m in env:
            return env if _eq(env[m], node) else None
        if not isinstance(node, ast.AST):
            return None
        env[m] = node
        return env
    # an expression statement whose value is a metavariable matches any statement
    if isinstance(pattern, ast.Expr) and _is_meta(pattern.value) and isinstance(node, ast.stmt):
        return match(pattern.value, node, env)
    if type(pattern) is not type(node):
        return None
    for field, pv in ast.iter_fields(pattern):
        if field in ("ctx", "lineno", "col_offset", "end_lineno", "end_col_offset", "type_comment", "kind"):
            continue
        nv = getattr(node, field, None)
        if isinstance(pv, list):
            if not isinstance(nv, list):
                return None
            # a trailing statement metavariable `REST_` matches the remaining statements
            if pv and isinstance(pv[-1], ast.Expr) and _is_meta(pv[-1].value) == "REST_":
                if len(nv) < len(pv) - 1:
                    return None
                pairs = list(zip(pv[:-1], nv))
            else:
                if len(pv) != len(nv):
                    return None
                pairs = list(zip(pv, nv))
            for x, y in pairs:
                if isinstance(x, ast.AST):
                    if match(x, y, env) is None:
                        return None
                elif x != y:
                    return None
        elif isinstance(pv, ast.AST):
            if not isinstance(nv, ast.AST) or match(pv, nv, env) is None:
                return None
        else:
            if pv != nv:
                return None
    return env


def parse_pattern(src: str) -> ast.AST:
    tree = ast.parse(src)
    if len(tree.body) == 1 and isinstance(tree.body[0], ast.Expr):
        return tree.body[0].value
    if len(tree.body) == 1:
        return tree.body[0]
    raise ValueError("pattern must be one expression or one statement")


def find(scope: ast.AST, src: str, nested: bool = True) -> list[tuple[ast.AST, dict]]:
    """All sub-nodes of `scope` matching the pattern, with their bindings."""
    pat = parse_pattern(src)
    out = []
    for n in ast.walk(scope):
        env = match(pat, n, {})
        if env is not None:
            out.append((n, env))
    return out


def has(scope: ast.AST, src: str) -> bool:
    return bool(find(scope, src))
